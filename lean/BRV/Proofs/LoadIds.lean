/-
Identities after Load: if no hash occurs twice in the indexed branch files (`StoreUniq`), the repository Load
builds holds every hash at one place only and every height map is complete (`IdOK`).  The argument follows the
data of the arena entries (headers, map, offset) through `load`: read, keep, prune, place; `Link` and the
historical heights do not touch them.
-/
import BRV.Proofs.ForestIds

namespace BRV.Repo

/-! ### the data of arena entries and what leaves it alone -/

/-- two arenas hold the same header data (only parent pointers may differ). -/
def SameData (ar ar' : Arena) : Prop :=
  ar'.length = ar.length ∧
  ∀ (x : Nat) (b : Branch), ar[x]? = some b → ∃ b', ar'[x]? = some b' ∧ b'.headers = b.headers ∧ b'.hmap = b.hmap ∧
    b'.offset = b.offset ∧ b'.parentHeight = b.parentHeight

theorem SameData.refl (ar : Arena) : SameData ar ar := ⟨rfl, fun _ b hb => ⟨b, hb, rfl, rfl, rfl, rfl⟩⟩

theorem SameData.trans {a b c : Arena} (h1 : SameData a b) (h2 : SameData b c) : SameData a c := by
  refine ⟨by rw [h2.1, h1.1], ?_⟩
  intro x xb hx
  obtain ⟨b1, hb1, e1, e2, e3, e4⟩ := h1.2 x xb hx
  obtain ⟨b2, hb2, f1, f2, f3, f4⟩ := h2.2 x b1 hb1
  exact ⟨b2, hb2, by rw [f1, e1], by rw [f2, e2], by rw [f3, e3], by rw [f4, e4]⟩

theorem loadLinkStep_data (r : Repo) (bi : Nat) : SameData r.arena (loadLinkStep r bi).arena := by
  unfold loadLinkStep
  simp only
  split
  · exact SameData.refl _
  · split
    · exact SameData.refl _
    · rename_i c h _
      split
      · exact SameData.refl _
      · simp only [Repo.setBranch]
        refine ⟨List.length_set, ?_⟩
        intro x b hb
        by_cases he : x = bi
        · subst he
          have hlt : x < r.arena.length := getElem?_lt _ _ _ hb
          refine ⟨_, List.getElem?_set_self hlt, ?_, ?_, ?_, ?_⟩ <;>
            (unfold Repo.br; rw [hb]; rfl)
        · exact ⟨b, by rw [List.getElem?_set_ne (Ne.symm he)]; exact hb, rfl, rfl, rfl, rfl⟩

theorem loadLink_fold_data (todo : List Nat) : ∀ r : Repo, SameData r.arena (todo.foldl loadLinkStep r).arena := by
  induction todo with
  | nil => intro r; exact SameData.refl _
  | cons bi rest ih =>
    intro r
    simp only [List.foldl_cons]
    exact (loadLinkStep_data r bi).trans (ih _)

theorem loadHistGo_arena : ∀ (fuel f : Nat) (r r3 : Repo), loadHistorical.go fuel f r = .ok r3 → r3.arena = r.arena := by
  intro fuel
  induction fuel with
  | zero => intro f r r3 h; simp only [loadHistorical.go, Except.ok.injEq] at h; rw [← h]
  | succ k ih =>
    intro f r r3 h
    simp only [loadHistorical.go] at h
    split at h
    · split at h <;> cases h
    · split at h
      · simp only [Except.ok.injEq] at h; rw [← h]
      · have := ih _ _ _ h
        rw [this]

theorem loadHistorical_arena (r r3 : Repo) (h : loadHistorical r = .ok r3) : r3.arena = r.arena := by
  unfold loadHistorical at h
  simp only at h
  split at h
  · simp only [Except.ok.injEq] at h; rw [← h]
  · exact loadHistGo_arena _ _ _ _ h

theorem loadFinish_data (r1 : Repo) (loaded : List Nat) (r : Repo) (h : loadFinish r1 loaded = (r, none)) :
    SameData r1.arena r.arena := by
  unfold loadFinish at h
  split at h
  · cases h
  · simp only at h
    split at h
    · cases h
    · split at h
      · cases h
      · rename_i lg _
        split at h
        · cases h
        · rename_i r3 hh
          simp only [Prod.mk.injEq] at h
          rw [← h.1, loadHistorical_arena _ r3 hh]
          exact loadLink_fold_data _ _

/-! ### what is placed -/

/-- the branches `load` reads for an index. -/
def bsOf (st : Store) (idx : List Nat) : List Branch :=
  idx.map fun k => branchOfFile ((List.lookup k st.branches).getD default)

theorem loadRead_map (st : Store) : ∀ (idx : List Nat) (acc bs : List Branch),
    loadRead st idx acc = .ok bs → bs = acc ++ bsOf st idx := by
  intro idx
  induction idx with
  | nil => intro acc bs h; simp only [loadRead, Except.ok.injEq] at h; simp [bsOf, h]
  | cons k rest ih =>
    intro acc bs h
    simp only [loadRead] at h
    cases hl : List.lookup k st.branches with
    | none => rw [hl] at h; cases h
    | some bf =>
      rw [hl] at h
      have := ih _ _ h
      rw [this]
      simp [bsOf, hl]

/-- the entry `load` places for a kept branch, `none` for a dropped one. -/
def placedOf (ph : Int) (x : Branch × Bool) : Option Branch := if x.2 then some (placedBranch ph x.1) else none

theorem loadPlace_arena (ph : Int) : ∀ (l : List (Branch × Bool)) (acc : Repo × List Nat),
    (l.foldl (loadPlaceStep ph) acc).1.arena = acc.1.arena ++ l.filterMap (placedOf ph) := by
  intro l
  induction l with
  | nil => intro acc; simp
  | cons x rest ih =>
    intro acc
    simp only [List.foldl_cons]
    rw [ih, loadPlaceStep_eq]
    by_cases hk : x.2 = true
    · simp only [hk, ↓reduceIte, List.filterMap_cons, placedOf, List.append_assoc, List.singleton_append]
    · have hk' : x.2 = false := by cases h : x.2 <;> simp_all
      simp only [hk', Bool.false_eq_true, ↓reduceIte, List.filterMap_cons, placedOf]

/-- **the data of what Load builds**: the arena holds, entry by entry, the kept branch files pruned to the
    prune height. -/
theorem load_data (r0 : Repo) (depth : Int) (g : Hdr) (rl : Repo) (idx : List Nat) (hidx : r0.store.index = some idx)
    (h : load r0 depth g = (rl, none)) :
    ∃ (keep : List Bool) (ph : Int), SameData (((bsOf r0.store idx).zip keep).filterMap (placedOf ph)) rl.arena := by
  unfold load at h
  simp only [freshRepo, hidx] at h
  split at h
  · cases h
  · cases hrd : loadRead r0.store idx [] with
    | error e => rw [hrd] at h; cases h
    | ok bs =>
      rw [hrd] at h
      have hbs := loadRead_map r0.store idx [] bs hrd
      simp only [List.nil_append] at hbs
      simp only at h
      cases hh : bs.head? with
      | none =>
        rw [hh] at h
        simp only at h
        unfold loadFinish at h
        simp at h
      | some b0 =>
        rw [hh] at h
        simp only at h
        generalize hkeep : loadKeepFix bs.length bs (bs.map fun b => decide (b.height ≥ b0.height - depth)) = keep at h
        generalize hphv : loadPruneHeight bs keep (b0.height - depth) = ph at h
        refine ⟨keep, ph, ?_⟩
        have hfd := loadFinish_data _ _ rl h
        unfold loadPlace at hfd
        rw [loadPlace_arena] at hfd
        simp only [List.nil_append] at hfd
        rw [← hbs]
        exact hfd

/-! ### no hash twice in storage ⇒ no hash twice in the arena -/

/-- no hash occurs twice in the indexed branch files. -/
def StoreUniq (st : Store) : Prop := ∃ idx, st.index = some idx ∧ (storeIds st idx).Nodup

theorem nodup_getElem?_inj {l : List Nat} (h : l.Nodup) (i j : Nat) (a : Nat) (hi : l[i]? = some a) (hj : l[j]? = some a) : i = j := by
  induction l generalizing i j with
  | nil => simp at hi
  | cons x rest ih =>
    rw [List.nodup_cons] at h
    cases i with
    | zero =>
      cases j with
      | zero => rfl
      | succ j =>
        simp only [List.getElem?_cons_zero, Option.some.injEq] at hi
        simp only [List.getElem?_cons_succ] at hj
        subst hi
        exact absurd (List.mem_of_getElem? hj) h.1
    | succ i =>
      cases j with
      | zero =>
        simp only [List.getElem?_cons_zero, Option.some.injEq] at hj
        simp only [List.getElem?_cons_succ] at hi
        subst hj
        exact absurd (List.mem_of_getElem? hi) h.1
      | succ j =>
        simp only [List.getElem?_cons_succ] at hi hj
        rw [ih h.2 i j hi hj]

theorem flatten_uniq (ls : List (List Nat)) (hnd : ls.flatten.Nodup) :
    ∀ (x y i j a : Nat) (l1 l2 : List Nat), ls[x]? = some l1 → ls[y]? = some l2 → l1[i]? = some a → l2[j]? = some a →
      x = y ∧ i = j := by
  induction ls with
  | nil => intro x y i j a l1 l2 hx; simp at hx
  | cons l rest ih =>
    intro x y i j a l1 l2 hx hy hi hj
    simp only [List.flatten_cons] at hnd
    rw [List.nodup_append] at hnd
    obtain ⟨h1, h2, h3⟩ := hnd
    have hmemrest : ∀ (z : Nat) (lz : List Nat) (k : Nat), rest[z]? = some lz → lz[k]? = some a → a ∈ rest.flatten := by
      intro z lz k hz hk
      exact List.mem_flatten.mpr ⟨lz, List.mem_of_getElem? hz, List.mem_of_getElem? hk⟩
    cases x with
    | zero =>
      simp only [List.getElem?_cons_zero, Option.some.injEq] at hx
      subst hx
      cases y with
      | zero =>
        simp only [List.getElem?_cons_zero, Option.some.injEq] at hy
        subst hy
        exact ⟨rfl, nodup_getElem?_inj h1 i j a hi hj⟩
      | succ y =>
        simp only [List.getElem?_cons_succ] at hy
        exact absurd rfl (h3 a (List.mem_of_getElem? hi) a (hmemrest y l2 j hy hj))
    | succ x =>
      simp only [List.getElem?_cons_succ] at hx
      cases y with
      | zero =>
        simp only [List.getElem?_cons_zero, Option.some.injEq] at hy
        subst hy
        exact absurd rfl (h3 a (List.mem_of_getElem? hj) a (hmemrest x l1 i hx hi))
      | succ y =>
        simp only [List.getElem?_cons_succ] at hy
        obtain ⟨e1, e2⟩ := ih h2 x y i j a l1 l2 hx hy hi hj
        exact ⟨by rw [e1], e2⟩

theorem sublist_flatten_filterMap {α : Type} (f : α → List Nat) (g : α → Option (List Nat))
    (hg : ∀ x y, g x = some y → y.Sublist (f x)) :
    ∀ l : List α, ((l.filterMap g).flatten).Sublist ((l.map f).flatten) := by
  intro l
  induction l with
  | nil => simp
  | cons x rest ih =>
    simp only [List.filterMap_cons, List.map_cons, List.flatten_cons]
    cases hgx : g x with
    | none => exact ih.trans (List.sublist_append_right _ _)
    | some y =>
      simp only [List.flatten_cons]
      exact List.Sublist.append (hg x y hgx) ih

theorem zip_fst_sublist {α β : Type} : ∀ (l : List α) (k : List β), ((l.zip k).map Prod.fst).Sublist l := by
  intro l
  induction l with
  | nil => intro k; simp
  | cons a rest ih =>
    intro k
    cases k with
    | nil => simp
    | cons b kr => simp only [List.zip_cons_cons, List.map_cons]; exact (ih kr).cons₂ a

/-- what `load` places for a kept branch: the file's branch with some headers gone from the front. -/
theorem placedBranch_data (ph : Int) (b : Branch) :
    ∃ n : Nat, (placedBranch ph b).headers = b.headers.drop n ∧
      (placedBranch ph b).hmap = (b.headers.take n).foldl (fun m d => HMap.del m d.hdr.id) b.hmap ∧
      (placedBranch ph b).offset = b.offset + (n : Int) ∧ (placedBranch ph b).parentHeight = b.parentHeight := by
  unfold placedBranch
  split
  · unfold pruneBranch
    split
    · exact ⟨0, by simp, by simp, by simp, rfl⟩
    · rename_i hc
      obtain ⟨n, hn⟩ : ∃ n : Nat, ph - b.prunedLowest = (n : Int) := ⟨(ph - b.prunedLowest).toNat, by omega⟩
      rw [hn]
      exact ⟨n, by simp, by simp, rfl, rfl⟩
  · exact ⟨0, by simp, by simp, by simp, rfl⟩

/-- the height map `LoadBranch` builds is complete when the file holds no hash twice. -/
theorem bof_complete (bf : BranchFile) (hnd : (idsOf bf.headers).Nodup) (i : Nat) (d : HData) (hd : bf.headers[i]? = some d) :
    (branchOfFile bf).hmap.get? d.hdr.id = some (bf.parentHeight + bf.offset + (i : Int)) := by
  unfold branchOfFile
  simp only
  have := get?_foldl_zipIdx bf.headers hnd (bf.parentHeight + bf.offset) 0 [] d.hdr.id
  rw [this, findIdx?_id_some bf.headers d.hdr.id i d hnd hd rfl]
  simp

theorem sublist_flatten {l1 l2 : List (List Nat)} (h : l1.Sublist l2) : l1.flatten.Sublist l2.flatten := by
  induction h with
  | slnil => simp
  | cons a _ ih => simp only [List.flatten_cons]; exact ih.trans (List.sublist_append_right _ _)
  | cons_cons a _ ih => simp only [List.flatten_cons]; exact List.Sublist.append (List.Sublist.refl _) ih

theorem member_nodup_of_flatten (ls : List (List Nat)) (h : ls.flatten.Nodup) : ∀ l ∈ ls, l.Nodup := by
  induction ls with
  | nil => intro l hl; cases hl
  | cons a rest ih =>
    simp only [List.flatten_cons] at h
    rw [List.nodup_append] at h
    intro l hl
    rcases List.mem_cons.mp hl with rfl | hl
    · exact h.1
    · exact ih h.2.1 l hl

/-- **Load from an image without repeated hashes gives a repository without repeated hashes**, with complete
    height maps. -/
theorem load_idOK (r0 : Repo) (depth : Int) (g : Hdr) (rl : Repo) (hok : LoadedOK r0.store rl)
    (hl : load r0 depth g = (rl, none)) (hu : StoreUniq r0.store) : IdOK rl := by
  obtain ⟨idx, hidx, hnd⟩ := hu
  obtain ⟨keep, ph, hsd⟩ := load_data r0 depth g rl idx hidx hl
  -- the placed entries and their hash lists
  have hplaced : ∀ (x : Nat) (pb : Branch), (((bsOf r0.store idx).zip keep).filterMap (placedOf ph))[x]? = some pb →
      ∃ (bf : BranchFile) (n : Nat), idsOf bf.headers ∈ (idx.map fun k => idsOf ((List.lookup k r0.store.branches).getD default).headers) ∧
        pb.headers = bf.headers.drop n ∧
        pb.hmap = (bf.headers.take n).foldl (fun m d => HMap.del m d.hdr.id) (branchOfFile bf).hmap ∧
        pb.offset = bf.offset + (n : Int) ∧ pb.parentHeight = bf.parentHeight := by
    intro x pb hx
    have hm := List.mem_of_getElem? hx
    obtain ⟨y, hy, hyp⟩ := List.mem_filterMap.mp hm
    unfold placedOf at hyp
    split at hyp
    · simp only [Option.some.injEq] at hyp
      subst hyp
      have hy1 := (List.of_mem_zip hy).1
      unfold bsOf at hy1
      obtain ⟨k, hk, hky⟩ := List.mem_map.mp hy1
      obtain ⟨n, p1, p2, p3, p4⟩ := placedBranch_data ph y.1
      refine ⟨(List.lookup k r0.store.branches).getD default, n, List.mem_map.mpr ⟨k, hk, rfl⟩, ?_, ?_, ?_, ?_⟩
      · rw [p1, ← hky]; rfl
      · rw [p2, ← hky]; rfl
      · rw [p3, ← hky]; rfl
      · rw [p4, ← hky]; rfl
    · cases hyp
  -- the flattened hash list of the placed entries has no repetition
  have hLnd : ((((bsOf r0.store idx).zip keep).filterMap (placedOf ph)).map (fun b => idsOf b.headers)).flatten.Nodup := by
    refine hnd.sublist ?_
    rw [List.map_filterMap]
    refine (sublist_flatten_filterMap (fun (x : Branch × Bool) => idsOf x.1.headers) _ ?_ _).trans ?_
    · intro x y hxy
      unfold placedOf at hxy
      split at hxy
      · simp only [Option.map_some, Option.some.injEq] at hxy
        subst hxy
        obtain ⟨n, p1, _⟩ := placedBranch_data ph x.1
        rw [p1]
        unfold idsOf
        exact (List.drop_sublist n _).map _
      · cases hxy
    · have h1 : ((bsOf r0.store idx).zip keep).map (fun (x : Branch × Bool) => idsOf x.1.headers)
          = (((bsOf r0.store idx).zip keep).map Prod.fst).map (fun b => idsOf b.headers) := by
        rw [List.map_map]; rfl
      rw [h1]
      have h2 : (bsOf r0.store idx).map (fun b => idsOf b.headers)
          = idx.map fun k => idsOf ((List.lookup k r0.store.branches).getD default).headers := by
        unfold bsOf; rw [List.map_map]; rfl
      unfold storeIds
      rw [← h2]
      exact sublist_flatten ((zip_fst_sublist _ _).map _)
  -- entries of the loaded arena and the placed entries
  have hentry : ∀ x ∈ rl.branches, ∃ pb, (((bsOf r0.store idx).zip keep).filterMap (placedOf ph))[x]? = some pb ∧
      (rl.br x).headers = pb.headers ∧ (rl.br x).hmap = pb.hmap ∧ (rl.br x).offset = pb.offset ∧
      (rl.br x).parentHeight = pb.parentHeight := by
    intro x hx
    have hlt := hok.valid x hx
    have hlt' : x < (((bsOf r0.store idx).zip keep).filterMap (placedOf ph)).length := by rw [← hsd.1]; exact hlt
    obtain ⟨b', hb', e1, e2, e3, e4⟩ := hsd.2 x _ (List.getElem?_eq_getElem hlt')
    have : rl.br x = b' := br_of_getElem? rl x b' hb'
    exact ⟨_, List.getElem?_eq_getElem hlt', by rw [this, e1], by rw [this, e2], by rw [this, e3], by rw [this, e4]⟩
  refine ⟨?_, ?_⟩
  · intro x hx i d hd
    obtain ⟨pb, hpb, e1, e2, e3, e4⟩ := hentry x hx
    obtain ⟨bf, n, hmem, p1, p2, p3, p4⟩ := hplaced x pb hpb
    have hbfnd : (idsOf bf.headers).Nodup := member_nodup_of_flatten _ hnd _ hmem
    rw [e1, p1, List.getElem?_drop] at hd
    rw [e2, p2, e3, p3, e4, p4, get?_foldl_del]
    have hnot : ¬ ∃ e ∈ bf.headers.take n, e.hdr.id = d.hdr.id := by
      rintro ⟨e, hem, heid⟩
      obtain ⟨j, hj⟩ := List.getElem?_of_mem hem
      rw [List.getElem?_take] at hj
      split at hj
      · rename_i hjn
        have h1 : (idsOf bf.headers)[j]? = some e.hdr.id := by unfold idsOf; rw [List.getElem?_map, hj]; rfl
        have h2 : (idsOf bf.headers)[n + i]? = some e.hdr.id := by unfold idsOf; rw [List.getElem?_map, hd, heid]; rfl
        have := nodup_getElem?_inj hbfnd j (n + i) _ h1 h2
        omega
      · cases hj
    rw [if_neg hnot, bof_complete bf hbfnd (n + i) d hd]
    congr 1; push_cast; omega
  · intro x hx y hy i j d e hd he heq
    obtain ⟨pbx, hpbx, e1, _⟩ := hentry x hx
    obtain ⟨pby, hpby, f1, _⟩ := hentry y hy
    rw [e1] at hd; rw [f1] at he
    have hLx : ((((bsOf r0.store idx).zip keep).filterMap (placedOf ph)).map (fun b => idsOf b.headers))[x]? = some (idsOf pbx.headers) := by
      rw [List.getElem?_map, hpbx]; rfl
    have hLy : ((((bsOf r0.store idx).zip keep).filterMap (placedOf ph)).map (fun b => idsOf b.headers))[y]? = some (idsOf pby.headers) := by
      rw [List.getElem?_map, hpby]; rfl
    have hi' : (idsOf pbx.headers)[i]? = some d.hdr.id := by unfold idsOf; rw [List.getElem?_map, hd]; rfl
    have hj' : (idsOf pby.headers)[j]? = some d.hdr.id := by unfold idsOf; rw [List.getElem?_map, he, heq]; rfl
    exact flatten_uniq _ hLnd x y i j _ _ _ hLx hLy hi' hj'

theorem nodupb_sound : ∀ l : List Nat, nodupb l = true → l.Nodup
  | [], _ => List.nodup_nil
  | a :: t, h => by
    simp only [nodupb, Bool.and_eq_true, Bool.not_eq_true', List.contains_eq_mem, decide_eq_false_iff_not] at h
    exact List.nodup_cons.mpr ⟨h.1, nodupb_sound t h.2⟩

/-- the executable test of `StoreUniq` is sound. -/
theorem storeUniqB_sound (s : Store) (h : storeUniqB s = true) : StoreUniq s := by
  unfold storeUniqB at h
  cases hi : s.index with
  | none => rw [hi] at h; cases h
  | some idx => rw [hi] at h; exact ⟨idx, hi, nodupb_sound _ h⟩

end BRV.Repo
