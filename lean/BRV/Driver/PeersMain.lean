/- Line-protocol driver for the peer address book model (correspondence for C20). -/
import BRV.Model.Peers
import BRV.Driver.Util

open BRV BRV.Drv BRV.Peers

def showPeer (p : Peer) : String := s!"{bytesToHex p.addr}:{p.score}:{p.time}"

def showPeers (l : List Peer) : String :=
  "[" ++ joinWith "," (sortStrings (l.map showPeer)) ++ "]"

def showLoad : LoadResult → String
  | .ok => "ok"
  | .errVersionRead => "err:version-read"
  | .errUnknownVersion => "err:unknown-version"
  | .errCountRead => "err:count-read"
  | .panic => "panic"

def stepLine (s : State) (line : String) : State × String :=
  let ws := splitWords line
  match ws with
  | "init" :: _ => ({}, "ok")
  | "add" :: rest =>
    match (kv rest "a").bind hexToBytes with
    | some a => let (s', r) := add s a; (s', s!"added={if r then 1 else 0}")
    | none => (s, "bad-op")
  | "score" :: rest =>
    match (kv rest "a").bind hexToBytes, kvInt rest "d", kvNat rest "now" with
    | some a, some d, some now =>
      let (s', r) := updateScore s a d now; (s', s!"found={if r then 1 else 0}")
    | _, _, _ => (s, "bad-op")
  | "time" :: rest =>
    match (kv rest "a").bind hexToBytes, kvNat rest "now" with
    | some a, some now => let (s', r) := updateTime s a now; (s', s!"found={if r then 1 else 0}")
    | _, _ => (s, "bad-op")
  | "get" :: rest =>
    match kvInt rest "lo", kvInt rest "hi" with
    | some lo, some hi => (s, s!"peers={showPeers (get s lo hi)}")
    | _, _ => (s, "bad-op")
  | "count" :: _ => (s, s!"n={s.list.length}")
  | "save" :: _ => let s' := save s; (s', s!"file={bytesToHex (s'.file.getD [])}")
  | "load" :: _ =>
    let (s', r) := load s; (s', s!"r={showLoad r} peers={showPeers s'.list}")
  | "loadraw" :: rest =>
    match (kv rest "hex").bind hexToBytes with
    | some b =>
      let (s', r) := load { s with file := some b }
      (s', s!"r={showLoad r} peers={showPeers s'.list}")
    | none => (s, "bad-op")
  | "loadcut" :: rest =>
    match kvNat rest "k" with
    | some k =>
      match s.file with
      | none => ({ s with list := [] }, "r=ok peers=[]")
      | some b =>
        let (r, l) := decode (b.take k)
        ({ s with list := l }, s!"r={showLoad r} peers={showPeers l}")
    | none => (s, "bad-op")
  | "clear" :: _ => (clear s, "ok")
  | _ => (s, "bad-op")

def main : IO Unit := do
  let stdin ← IO.getStdin
  let stdout ← IO.getStdout
  let _ ← loopLines stdin ({} : State) fun s line => do
    if line.startsWith "#" || line.isEmpty then
      stdout.putStrLn line
      return s
    let op := opPart line
    let (s', out) := stepLine s op
    stdout.putStrLn s!"{op} => {out}"
    return s'
  stdout.flush
