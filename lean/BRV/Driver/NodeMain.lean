/- Line-protocol driver for the connection model (correspondence for C13, C14, C15).
   Builds the same frames as the Go harness from the op text, feeds them to `Wire.handleMessage`
   and prints what the scripted peer would observe. SHA-256 (the model's `env.hash` parameter) is
   implemented here. -/
import BRV.Model.Wire
import BRV.Driver.Util

open BRV BRV.Drv BRV.Node BRV.Wire

/-! ### SHA-256 -/

def shaK : Array UInt32 := #[
  0x428a2f98, 0x71374491, 0xb5c0fbcf, 0xe9b5dba5, 0x3956c25b, 0x59f111f1, 0x923f82a4, 0xab1c5ed5,
  0xd807aa98, 0x12835b01, 0x243185be, 0x550c7dc3, 0x72be5d74, 0x80deb1fe, 0x9bdc06a7, 0xc19bf174,
  0xe49b69c1, 0xefbe4786, 0x0fc19dc6, 0x240ca1cc, 0x2de92c6f, 0x4a7484aa, 0x5cb0a9dc, 0x76f988da,
  0x983e5152, 0xa831c66d, 0xb00327c8, 0xbf597fc7, 0xc6e00bf3, 0xd5a79147, 0x06ca6351, 0x14292967,
  0x27b70a85, 0x2e1b2138, 0x4d2c6dfc, 0x53380d13, 0x650a7354, 0x766a0abb, 0x81c2c92e, 0x92722c85,
  0xa2bfe8a1, 0xa81a664b, 0xc24b8b70, 0xc76c51a3, 0xd192e819, 0xd6990624, 0xf40e3585, 0x106aa070,
  0x19a4c116, 0x1e376c08, 0x2748774c, 0x34b0bcb5, 0x391c0cb3, 0x4ed8aa4a, 0x5b9cca4f, 0x682e6ff3,
  0x748f82ee, 0x78a5636f, 0x84c87814, 0x8cc70208, 0x90befffa, 0xa4506ceb, 0xbef9a3f7, 0xc67178f2]

def rotr (x : UInt32) (n : UInt32) : UInt32 := (x >>> n) ||| (x <<< (32 - n))

def shaBlock (h : Array UInt32) (blk : Array UInt32) : Array UInt32 := Id.run do
  let mut w := blk
  for i in [16:64] do
    let w15 := w[i-15]!
    let w2 := w[i-2]!
    let s0 := rotr w15 7 ^^^ rotr w15 18 ^^^ (w15 >>> 3)
    let s1 := rotr w2 17 ^^^ rotr w2 19 ^^^ (w2 >>> 10)
    w := w.push (w[i-16]! + s0 + w[i-7]! + s1)
  let mut a := h[0]!
  let mut b := h[1]!
  let mut c := h[2]!
  let mut d := h[3]!
  let mut e := h[4]!
  let mut f := h[5]!
  let mut g := h[6]!
  let mut hh := h[7]!
  for i in [0:64] do
    let s1 := rotr e 6 ^^^ rotr e 11 ^^^ rotr e 25
    let ch := (e &&& f) ^^^ ((~~~ e) &&& g)
    let t1 := hh + s1 + ch + shaK[i]! + w[i]!
    let s0 := rotr a 2 ^^^ rotr a 13 ^^^ rotr a 22
    let mj := (a &&& b) ^^^ (a &&& c) ^^^ (b &&& c)
    let t2 := s0 + mj
    hh := g; g := f; f := e; e := d + t1; d := c; c := b; b := a; a := t1 + t2
  return #[h[0]! + a, h[1]! + b, h[2]! + c, h[3]! + d, h[4]! + e, h[5]! + f, h[6]! + g, h[7]! + hh]

def sha256 (msg : Bytes) : Bytes := Id.run do
  let n := msg.length
  let padLen := (55 + 64 - n % 64) % 64
  let bits := n * 8
  let lenBytes : List Nat := (List.range 8).map fun i => (bits >>> (8 * (7 - i))) % 256
  let data : Array Nat := (msg ++ [0x80] ++ List.replicate padLen 0 ++ lenBytes).toArray
  let mut h : Array UInt32 := #[0x6a09e667, 0xbb67ae85, 0x3c6ef372, 0xa54ff53a, 0x510e527f, 0x9b05688c, 0x1f83d9ab, 0x5be0cd19]
  let blocks := data.size / 64
  for bi in [0:blocks] do
    let mut blk : Array UInt32 := Array.mkEmpty 64
    for wi in [0:16] do
      let o := bi * 64 + wi * 4
      let v := (data[o]! % 256) * 16777216 + (data[o+1]! % 256) * 65536 + (data[o+2]! % 256) * 256 + (data[o+3]! % 256)
      blk := blk.push (UInt32.ofNat v)
    h := shaBlock h blk
  let mut out : List Nat := []
  for i in [0:8] do
    let v := h[7 - i]!.toNat
    out := [v / 16777216 % 256, v / 65536 % 256, v / 256 % 256, v % 256] ++ out
  return out

def sha256d (b : Bytes) : Bytes := sha256 (sha256 b)

/-! ### frames (the same construction as go/cmd/node) -/

def netMagic : Bytes := [0xe3, 0xe1, 0xf3, 0xe8]

def cmd12 (c : String) : Bytes :=
  let b := ascii c
  (b ++ List.replicate (12 - b.length) 0).take 12

/-- `pay=<hex> fill=<n>:<byte> tail=<hex>`. -/
def payloadOf (ws : List String) : Option Bytes := do
  let pay ← match kv ws "pay" with | some h => hexToBytes h | none => some []
  let fill ← match kv ws "fill" with
    | some f =>
      match f.splitOn ":" with
      | [n, b] => do let n ← n.toNat?; let b ← b.toNat?; some (List.replicate n (b % 256))
      | _ => none
    | none => some []
  let inv ← match kv ws "invgen" with
    | some g =>
      match g.splitOn ":" with
      | [n, b] => do
        let n ← n.toNat?; let b ← b.toNat?
        some (varIntEnc n ++ (List.range n).flatMap (fun i => [1, 0, 0, 0] ++ leN 8 (b + i) ++ List.replicate 24 0))
      | _ => none
    | none => some []
  let tail ← match kv ws "tail" with | some h => hexToBytes h | none => some []
  some (pay ++ fill ++ inv ++ tail)

def applyCut (ws : List String) (b : Bytes) : Bytes :=
  match kvNat ws "cut" with
  | some k => b.take k
  | none => b

def classicFrame (ws : List String) : Option Bytes := do
  let cmd ← kv ws "cmd"
  let p ← payloadOf ws
  let magic ← match kv ws "magic" with | some h => hexToBytes h | none => some netMagic
  let len := (kvNat ws "len").getD p.length
  let ck ← match kv ws "ck" with | some h => hexToBytes h | none => some ((sha256d p).take 4)
  some (applyCut ws (magic ++ cmd12 cmd ++ leN 4 len ++ ck ++ p))

def extFrame (ws : List String) : Option Bytes := do
  let cmd ← kv ws "cmd"
  let p ← payloadOf ws
  let len := (kvNat ws "len").getD p.length
  let hlen := (kvNat ws "hlen").getD 0xffffffff
  some (applyCut ws (netMagic ++ cmd12 "extmsg" ++ leN 4 hlen ++ [0, 0, 0, 0] ++ cmd12 cmd ++ leN 8 len ++ p))

def pingFrame (nonce : Nat) : Bytes :=
  let p := leN 8 nonce
  netMagic ++ cmd12 "ping" ++ leN 4 8 ++ (sha256d p).take 4 ++ p

def pongFrame (nonce : Nat) : Bytes :=
  let p := leN 8 nonce
  netMagic ++ cmd12 "pong" ++ leN 4 8 ++ (sha256d p).take 4 ++ p

def barrierBase : Nat := 0xB0B00000
def isBarrier (n : Nat) : Bool := barrierBase ≤ n && n < barrierBase + 0x10000

/-! ### driver state -/

inductive Mode | open_ | closed | wedged | crashed
deriving DecidableEq

structure D where
  env : Env
  base : State            -- state at the first byte of `pending`
  pending : Bytes := []   -- received, not yet consumed
  reported : Nat := 0     -- effects of the incomplete head message already printed
  view : State            -- flags as of now (inside an incomplete message)
  needAlt : Option (List Nat) := none  -- alternate handler still running inside an incomplete message
  cancelHung : Bool := false           -- a CancelBlockRequest is blocked on the streaming block's reader
  altReported : Bool := false          -- the alternate handler of the incomplete head message was already printed
  mode : Mode := .open_
  ran : Bool := true      -- Run has (or would have) returned after a close
  opIdx : Nat := 0

def mkEnv (mem : Nat) : Env :=
  { net := netMagic, mem := mem, hash := sha256d,
    verifyOk := fun h => hdrNonce h / 16777216 == 0x6D,
    processOk := fun h => hdrNonce h / 16777216 != 0xBD }

def isAlt : Effect → Bool
  | .altHeaders _ => true
  | _ => false

structure DAcc where
  fx : List Effect := []      -- non-alt effects, in order
  alts : List (List Nat) := []

/-- consume as many messages as the input allows. -/
def pump : Nat → D → DAcc → D × DAcc
  | 0, d, a => (d, a)
  | fuel+1, d, a =>
    match handleMessage d.env d.base d.pending with
    | .ok s' rest fx =>
      let plain := fx.filter (fun x => !isAlt x)
      let alts := if d.altReported then [] else fx.filterMap fun | .altHeaders l => some l | _ => none
      let a' : DAcc := { fx := a.fx ++ plain.drop d.reported, alts := a.alts ++ alts }
      let d' := { d with base := s', pending := rest, reported := 0, view := s', needAlt := none, altReported := false }
      if rest.isEmpty then (d', a') else pump fuel d' a'
    | .need v fx altDone =>
      let plain := fx.filter (fun x => !isAlt x)
      let alt := fx.findSome? fun | .altHeaders l => some l | _ => none
      let a1 : DAcc := { a with fx := a.fx ++ plain.drop d.reported }
      match alt with
      | some l =>
        if altDone && !d.altReported then
          ({ d with reported := plain.length, view := v, needAlt := none, altReported := true }, { a1 with alts := a1.alts ++ [l] })
        else ({ d with reported := plain.length, view := v, needAlt := if d.altReported then none else some l }, a1)
      | none => ({ d with reported := plain.length, view := v, needAlt := none }, a1)
    | .closed s' fx =>
      let plain := fx.filter (fun x => !isAlt x)
      let alts := if d.altReported then [] else fx.filterMap fun | .altHeaders l => some l | _ => none
      ({ d with mode := .closed, view := s', base := s', needAlt := none }, { fx := a.fx ++ plain.drop d.reported, alts := a.alts ++ alts })
    | .wedged s' fx =>
      let plain := fx.filter (fun x => !isAlt x)
      ({ d with mode := .wedged, view := s', base := s' }, { a with fx := a.fx ++ plain.drop d.reported })
    | .panic _ => ({ d with mode := .crashed }, a)

def feed (d : D) (bytes : Bytes) : D × DAcc :=
  if d.mode != .open_ then (d, {})
  else
    let d1 := { d with pending := d.pending ++ bytes }
    pump (d1.pending.length / 24 + 2) d1 {}

def b2s (b : Bool) : String := if b then "1" else "0"

def showFlags (d : D) : String :=
  -- after the connection closed and Run returned, run() has stored ready=false
  let ready := if d.mode == .closed then false else d.view.ready
  s!"r{b2s ready}v{b2s d.view.verified}h{b2s d.view.hsComplete}"

def showSent (fx : List Effect) (own : Option Nat) : String :=
  let items := fx.filterMap fun
    | .send "pong" n => if isBarrier n || some n == own then none else some s!"pong:{n}"
    | .send "getdata" n => some s!"getdata:{n}"
    | .send c _ => some c
    | _ => none
  "[" ++ joinWith "," (sortStrings items) ++ "]"

def showFx (fx : List Effect) : String :=
  let items := fx.filterMap fun
    | .verifyHeader n => some s!"VH:{n}"
    | .processHeader n => some s!"PH:{n}"
    | .peersAdd p => some s!"PA:{p}"
    | .peersGet => some "PG"
    | .updateScore => some "US"
    | _ => none
  "[" ++ joinWith "," items ++ "]"

def showAlts (alts : List (List Nat)) : String :=
  "[" ++ joinWith "," (alts.map fun l => "[" ++ joinWith "," (l.map toString) ++ "]") ++ "]"

def countRx (fx : List Effect) : Nat := (fx.filter fun | .addTx _ => true | _ => false).length

def hasPong (fx : List Effect) (n : Nat) : Bool := fx.any fun | .send "pong" m => m == n | _ => false

/-- common tail of every sending op: the barrier ping, then the observation. -/
def showBh (r : BlockRec) : String :=
  if !r.called then "idle"
  else
    let dn := match r.done with | none => "run" | some true => "ok" | some false => "err"
    s!"c{r.count}g{r.got}d{dn}"

/-- the end of Run as the harness reports it: onStop invocations, IsStopped, a blocked cancel's answer. -/
def endTail (d : D) : D × String :=
  let (s', _) := connectionEnd d.view
  let c := if d.cancelHung then " cancel=1" else ""
  ({ d with view := s', base := s', cancelHung := false }, s!" onstop={s'.onStopCalls} stopped=1{c} bh={showBh s'.bh}")

/-- an op sent WITHOUT barrier ping (pieces of a message): the node ends up waiting for input. -/
def partOp (d : D) (bytes : Bytes) : D × String :=
  if d.mode == .wedged then (d, s!"sync=none tx=[] fx=[] hh=[] rx=0 st={showFlags d}")
  else if d.mode != .open_ then (d, "dead")
  else
    let (d1, a) := feed d bytes
    match d1.mode with
    | .crashed => (d1, "sync=crash")
    | .closed =>
      let (d2, tail) := endTail d1
      (d2, s!"sync=closed run=returned tx=* fx={showFx a.fx} hh={showAlts a.alts} rx={countRx a.fx} st={showFlags d2}{tail}")
    | _ => (d1, s!"sync=quiet tx={showSent a.fx none} fx={showFx a.fx} hh={showAlts a.alts} rx={countRx a.fx} st={showFlags d1}")

def sendOp (d : D) (bytes : Bytes) (own : Option Nat) : D × String :=
  let key := if own.isSome then "pong" else "sync"
  if d.mode == .wedged then (d, s!"{key}=none tx=[] fx=[] hh=[] rx=0 st={showFlags d}")
  else if d.mode != .open_ then (d, "dead")
  else
    let nonce := own.getD (barrierBase + d.opIdx)
    let (d1, a) := feed d (bytes ++ pingFrame nonce)
    let body := s!"tx={showSent a.fx (some nonce)} fx={showFx a.fx} hh={showAlts a.alts} rx={countRx a.fx} st={showFlags d1}"
    match d1.mode with
    | .crashed => (d1, s!"{key}=crash")
    | .closed =>
      let (d2, tail) := endTail d1
      (d2, s!"{key}=closed run=returned tx=* fx={showFx a.fx} hh={showAlts a.alts} rx={countRx a.fx} st={showFlags d2}{tail}")
    | _ =>
      if hasPong a.fx nonce then (d1, s!"{key}={if own.isSome then toString nonce else "ok"} {body}")
      else (d1, s!"{key}=none {body}")

/-- the `close` op: the peer closes the connection and Run returns (or is wedged). -/
def closeStep (d : D) : D × String :=
  match d.mode with
  | .crashed => (d, "dead")
  | .wedged => (d, s!"run=hung hh=[] st={showFlags d}")
  | .closed => (d, s!"run=returned hh=[] st={showFlags d} onstop={d.view.onStopCalls} stopped=1 bh={showBh d.view.bh}")
  | .open_ =>
    let alts := match d.needAlt with | some l => [l] | none => []
    let d1 := { d with mode := .closed, needAlt := none }
    let (d2, tail) := endTail d1
    (d2, s!"run=returned hh={showAlts alts} st={showFlags d2}{tail}")

def stepLine (d : D) (line : String) : D × String :=
  let ws := splitWords line
  let d := { d with opIdx := d.opIdx + 1 }
  -- the clock reading the harness wrote into the op (ms since init): an input of the model
  let d := match kvNat ws "t" with
    | some t => { d with base := { d.base with now := t }, view := { d.view with now := t } }
    | none => d
  match ws with
  | "init" :: rest =>
    let flag (k : String) : Bool := (kvNat rest k).getD 0 == 1
    let s0 : State := { verifyOnly := flag "verifyonly", hasTx := flag "tx", hasHH := flag "hh",
                        pingNonce := (kvNat rest "pn").getD 0, txTimeout := (kvNat rest "txto").getD 3600000 }
    ({ env := mkEnv ((kvNat rest "mem").getD (2 ^ 31)), base := s0, view := s0, opIdx := 0 }, "tx=[version]")
  | "msg" :: rest =>
    match classicFrame rest with
    | some b => if (kvNat rest "nob").getD 0 == 1 then partOp d b else sendOp d b none
    | none => (d, "bad-op")
  | "ext" :: rest =>
    match extFrame rest with
    | some b => if (kvNat rest "nob").getD 0 == 1 then partOp d b else sendOp d b none
    | none => (d, "bad-op")
  | "raw" :: rest =>
    match (kv rest "hex").bind hexToBytes with
    | some b => if (kvNat rest "nob").getD 0 == 1 then partOp d b else sendOp d b none
    | none => (d, "bad-op")
  | "pong" :: rest =>
    match kvNat rest "d" with
    | some dl => sendOp d (pongFrame ((d.base.pingNonce + dl) % 2 ^ 64)) none
    | none => (d, "bad-op")
  | "ping" :: rest =>
    match kvNat rest "n" with
    | some n => sendOp d [] (some n)
    | none => (d, "bad-op")
  | "expect" :: _ => sendOp d [] none
  | "wait" :: _ => (d, "ok")
  | "polltx" :: _ =>
    -- TxManager.GetTxRequests for this node + BitcoinNode.RequestTxs, then the barrier
    if d.mode != .open_ then (d, "dead")
    else if !d.base.hasTx then (d, "req=notx")
    else
      let (s', k) := txPoll d.base
      let d1 := { d with base := s', view := { s' with ready := d.view.ready, verified := d.view.verified, hsComplete := d.view.hsComplete } }
      let (d2, out) := sendOp d1 [] none
      (d2, s!"req={k} {out}")
  | "reqblock" :: rest =>
    match (kv rest "hdr").bind hexToBytes with
    | some h =>
      if d.mode != .open_ && d.mode != .wedged then (d, "dead")
      else if d.cancelHung then (d, "req=locked")
      else if !d.view.ready then (d, "req=notready")
      else
        match requestBlock? d.base (sha256d h) with
        | none => (d, "req=busy")
        | some (s', _) => ({ d with base := s', view := s' }, "req=ok")
    | none => (d, "bad-op")
  | "reqheaders" :: _ =>
    -- BitcoinNode.RequestHeaders: refused while a block request is outstanding
    if d.mode != .open_ && d.mode != .wedged then (d, "dead")
    else if d.cancelHung then (d, "req=locked")
    else if d.base.busy then (d, "req=busy")
    else (d, "req=ok")
  | "cancelblock" :: rest =>
    match (kv rest "hdr").bind hexToBytes with
    | some h =>
      if d.mode != .open_ && d.mode != .wedged then (d, "dead")
      else if d.cancelHung then (d, "started=locked")
      else if d.view.blockReader && d.view.blockReq == some (sha256d h) then
        -- in-progress cancel: the node closes the connection, handleBlock fails, run() ends
        let (s', r) := cancelBlock d.view (sha256d h)
        ({ d with mode := .closed, base := s', view := s', needAlt := none }, s!"started={b2s r} closed=1 run=returned")
      else
        let (s', r) := cancelBlock d.base (sha256d h)
        let v := (cancelBlock d.view (sha256d h)).1
        ({ d with base := s', view := v }, s!"started={b2s r}")
    | none => (d, "bad-op")
  | "blockstate" :: _ =>
    if d.mode == .crashed then (d, "dead")
    else
      let busy := if d.cancelHung && d.mode == .open_ then "?" else b2s d.view.busy
      (d, s!"bh={showBh d.view.bh} onstop={d.view.onStopCalls} busy={busy}")
  | "closecancel" :: rest =>
    -- the peer drops, then (while run() is calling the on-stop function) the request is cancelled: as a history
    -- of the model this is `close` followed by `CancelBlockRequest` on what the end of the connection left
    match (kv rest "hdr").bind hexToBytes with
    | none => (d, "bad-op")
    | some h =>
      if d.mode != .open_ || d.cancelHung then
        let (d', out) := closeStep d
        (d', s!"started=dead {out}")
      else
        let (d1, out) := closeStep d
        let (v, r) := cancelBlock d1.view (sha256d h)
        ({ d1 with view := v, base := (cancelBlock d1.base (sha256d h)).1 }, s!"started={b2s r} {out}")
  | "close" :: _ => closeStep d
  | _ => (d, "bad-op")

def main : IO Unit := do
  let stdin ← IO.getStdin
  let stdout ← IO.getStdout
  let s0 : State := {}
  let d0 : D := { env := mkEnv (2 ^ 31), base := s0, view := s0 }
  let _ ← loopLines stdin d0 fun d line => do
    if line.startsWith "#" || line.isEmpty then
      stdout.putStrLn line
      return d
    let op := opPart line
    let (d', out) := stepLine d op
    stdout.putStrLn s!"{op} => {out}"
    return d'
  stdout.flush
