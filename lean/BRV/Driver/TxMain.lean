/- Line-protocol driver for the TxManager model (correspondence for C06).

   Model time: the harness runs a script in "epochs" separated by `adv` ops (a real sleep of one
   tick); epoch k is the model instant 2k+2, the request time-out of `to` ticks is 2·to, and
   `clean keep=J` (Clean with `oldest` = the real instant at which epoch J started) is the model
   instant 2J+1, strictly between the epochs J-1 and J.

   `poll … got=[…]`: Go visits the buckets in a random order and tests `max` only per bucket, so
   the result set is not a function of the state. The harness writes the set it observed into the
   op; the driver looks for a bucket order under which the model returns exactly that set, and
   replays it (printing `inadmissible` if there is none). -/
import BRV.Model.TxMgr
import BRV.Driver.Util

open BRV BRV.Drv BRV.TxMgr

structure DState where
  st : Store := {}
  live : Bool := false
  tmo : Nat := 1
  long : Bool := false
  staleMode : Bool := false
  epoch : Nat := 0
  rel : List (TxId × Bool) := []

def DState.now (d : DState) : Nat := 2 * d.epoch + 2

def DState.env (d : DState) : Env :=
  { timeout := 2 * d.tmo, proc := fun t => .ok ((d.rel.lookup t).getD false) }

def insertBy (le : Nat → Nat → Bool) (x : Nat) : List Nat → List Nat
  | [] => [x]
  | y :: ys => if le x y then x :: y :: ys else y :: insertBy le x ys

def sortBy (le : Nat → Nat → Bool) (xs : List Nat) : List Nat := xs.foldr (insertBy le) []

def sortNat (xs : List Nat) : List Nat := sortBy (fun a b => a ≤ b) xs

def showNats (xs : List Nat) : String := "[" ++ joinWith "," (xs.map toString) ++ "]"

def allBuckets : List Nat := List.range Facts.txBuckets

/-- a bucket order under which the model can return the set `got`, if there is one. -/
def orderFor (env : Env) (st : Store) (node : NodeId) (now : Nat) (got : List TxId) : List Nat :=
  let elig := (getTxRequests env st node 1000000000 now allBuckets).2
  let cnt := fun b => (elig.filter (fun k => bucketOf k == b)).length
  let inS := fun b => got.any (fun k => bucketOf k == b)
  let s := sortBy (fun a b => cnt a ≤ cnt b) (allBuckets.filter inS)
  let rest0 := allBuckets.filter (fun b => !inS b && cnt b == 0)
  let rest1 := allBuckets.filter (fun b => !inS b && cnt b != 0)
  s ++ rest0 ++ rest1

def b01 (b : Bool) : String := if b then "1" else "0"

def stepLine (d : DState) (line : String) : DState × String :=
  let ws := splitWords line
  if !d.live && ws.head? != some "init" then (d, "bad-op") else
  match ws with
  | "init" :: rest =>
    match kvNat rest "to", kv rest "mode" with
    | some t, some m =>
      if (m == "zero" && t == 0) || (m == "long" && t == 1) || (m == "stale" && t == 1) || (m == "short" && 1 ≤ t && t ≤ 4) then
        ({ live := true, tmo := t, long := m == "long" || m == "stale", staleMode := m == "stale" }, "ok")
      else ({}, "bad-op")
    | _, _ => ({}, "bad-op")
  | "ann" :: rest =>
    match kvNat rest "node", kvNat rest "tx" with
    | some n, some t =>
      let r := addTxID d.env d.st n t d.now
      ({ d with st := r.1 }, s!"req={b01 r.2}")
    | _, _ => (d, "bad-op")
  | "dlv" :: rest =>
    match kvNat rest "node", kvNat rest "tx", kvNat rest "rel" with
    | some n, some t, some r =>
      let d1 := if (d.rel.lookup t).isSome then d else { d with rel := (t, r != 0) :: d.rel }
      ({ d1 with st := addTx d1.env d1.st n t d1.now }, "ok")
    | _, _, _ => (d, "bad-op")
  | "poll" :: rest =>
    match kvNat rest "node", kvInt rest "max", (kv rest "got").bind parseNatList with
    | some n, some m, some got =>
      let order := orderFor d.env d.st n d.now got
      let r := getTxRequests d.env d.st n m d.now order
      if sortNat r.2 == sortNat got then ({ d with st := r.1 }, s!"n={r.2.length}")
      else ({ d with st := r.1 }, s!"inadmissible model={showNats (sortNat r.2)}")
    | _, _, _ => (d, "bad-op")
  | "adv" :: _ =>
    if d.long then (d, "unsupported") else ({ d with epoch := d.epoch + 1 }, "ok")
  | "clean" :: rest =>
    match kvNat rest "keep" with
    | some j => ({ d with st := clean d.st (2 * j + 1) }, "ok")
    | none => (d, "bad-op")
  | "stale" :: rest =>
    -- a poll that outlasts the time-out (see the harness): the targets are requested from node 1 and
    -- recorded for node 2 at time 2; node 2's poll starts at time 4 but reaches the entries at time 8
    -- (time-out 2) and stamps them with that time; node 4 then announces the txids the poll handed
    -- out last and must be refused (regression for repository fix 9c84f1c).
    match d.staleMode, kvNat rest "fill", kvNat rest "targets", kvNat rest "tail", kvNat rest "slow" with
    | true, some fill, some t, some k, some 1 =>
      if fill < 1000 || fill > 2000000 || t < 256 || t > 4096 || k < 1 || k > t then (d, "bad-op") else
      let env : Env := { timeout := 2 }
      let st0 := (List.range t).foldl (fun s x => (addTxID env (addTxID env s 1 x 2).1 2 x 2).1) ({} : Store)
      let r := pollBuckets env 2 1000000000 { st0 with clock := 8 } allBuckets []
      let res := (r.2.reverse.take k).foldl
        (fun (acc : Store × Nat) x => let a := addTxID env acc.1 4 x 8; (a.1, acc.2 + (if a.2 then 1 else 0))) (r.1, 0)
      (d, s!"got={r.2.length} dup={res.2}")
    | _, _, _, _, _ => (d, "bad-op")
  | "drain" :: _ =>
    let st := drain d.env d.st
    ({ d with st := st }, s!"proc={showNats st.processed} saved={showNats st.saved}")
  | _ => (d, "bad-op")

def main : IO Unit := do
  let stdin ← IO.getStdin
  let stdout ← IO.getStdout
  let _ ← loopLines stdin ({} : DState) fun s line => do
    if line.startsWith "#" || line.isEmpty then
      stdout.putStrLn line
      return s
    let op := opPart line
    let (s', out) := stepLine s op
    stdout.putStrLn s!"{op} => {out}"
    return s'
  stdout.flush
