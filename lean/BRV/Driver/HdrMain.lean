/- Line-protocol driver for the header repository model (correspondence for C01, C03, C07–C12, C17–C19). -/
import BRV.Model.RepoOps
import BRV.Model.Locator
import BRV.Driver.Util

open BRV BRV.Drv BRV.Repo

structure DState where
  repo : Repo := {}
  hdrs : List (Nat × Hdr) := []      -- headers defined by the script
  genesis : Hdr := { id := 0, prev := 999999, bits := 0x1d00ffff, time := 1231006505 }
deriving Inhabited

def specialBase : Nat := 900000

/-- ids of the split hashes: distinct hash values numbered from 900001 in order of first
    appearance over (before, after) of `Facts.splits` then `Facts.requiredSplit`. -/
def splitIds : List (Nat × Nat) :=
  let hashes := (Facts.splits ++ Facts.requiredSplit).foldl (fun acc (_, b, a, _) =>
    let acc := if acc.contains b then acc else acc ++ [b]
    if acc.contains a then acc else acc ++ [a]) ([] : List Nat)
  hashes.zipIdx.map fun (h, i) => (h, specialBase + 1 + i)

def idOfHash (h : Nat) : Nat := (List.lookup h splitIds).getD 0

def mkSplit (e : String × Nat × Nat × Nat) : Split :=
  { name := e.1, before := idOfHash e.2.1, after := idOfHash e.2.2.1, height := (e.2.2.2 : Int) }

/-- insertion sort, highest height first (sort.Sort of `Splits`, 2 elements). -/
def sortSplits (l : List Split) : List Split :=
  l.foldl (fun acc x =>
    let rec ins : List Split → List Split
      | [] => [x]
      | y :: ys => if x.height > y.height then x :: y :: ys else y :: ins ys
    ins acc) []

def mainCfg (maxDepth : Int) (inv : List Nat) : Cfg :=
  { mainNet := true, maxBranchDepth := maxDepth, cfgInvalid := inv, genesisId := 0,
    splits := sortSplits (Facts.splits.map mkSplit), required := (Facts.requiredSplit.map mkSplit).head? }

def testCfg (maxDepth : Int) (inv : List Nat) : Cfg :=
  { mainNet := false, maxBranchDepth := maxDepth, cfgInvalid := inv, genesisId := 0 }

def showVerdict : Verdict → String
  | .ok => "ok" | .known => "ok" | .unknown => "unknown" | .wrongChain => "wrongchain"
  | .badWork => "badwork" | .badBits => "badbits" | .invalid => "invalid" | .tooDeep => "toodeep"
  | .err m =>
    if (m.splitOn "Intersect not found").length > 1 then "err:intersect-not-found"
    else if (m.splitOn "Intersect missing").length > 1 then "err:intersect-missing"
    else if (m.splitOn "Height Unavailable").length > 1 then "err:height-unavailable"
    else if (m.splitOn "Wrong Previous Hash").length > 1 then "err:wrong-previous-hash"
    else if (m.splitOn "Header Data Not Found").length > 1 then "err:header-data-not-found"
    else if (m.splitOn "calculate target").length > 1 then "err:calculate-target"
    else "err:other"
  | .panic _ => "panic"

def showIds (l : List Nat) : String := "[" ++ joinWith "," (l.map toString) ++ "]"

/-- insertion sort of ids -/
def sortNat (l : List Nat) : List Nat :=
  l.foldl (fun acc x => let (lo, hi) := acc.span (· ≤ x); lo ++ [x] ++ hi) []

/-- Go's sort.Sort is only an insertion sort (stable, modelled) up to 12 elements; longer locators
    (where the order inside equal heights, hence which duplicates end up adjacent, is unspecified) are compared as sets. -/
def showLoc (l : List Nat) : String := if l.length > 10 then "set" ++ showIds (sortNat l).eraseDups else showIds l

def tipStr (r : Repo) : String := s!"h={tipHeight r} tip={tipId r} work={tipWork r}"

def showFail (stage : String) : Option Fail → String
  | none => "ok"
  | some (.err _) => "err:" ++ stage
  | some (.panic _) => "panic"

def showReadErr : ReadErr → String
  | .unknown => "unknown" | .notAvailable => "notavail" | .beyondTip => "beyond"
  | .fileRead => "err:read" | .fileShort => "err:short" | .wrongVersion => "err:version"

def dump (s : DState) : String :=
  let r := s.repo
  let ids := (s.hdrs.map (·.1)).reverse
  let ids := if ids.contains s.genesis.id then ids else s.genesis.id :: ids
  let hh := ids.map fun i => s!"{i}:{(hashHeight r i).getD (-1)}"
  let ch := ids.map fun i => match checkHeader r i with
    | .ok (h, f) => s!"{i}:{h}:{if f then 1 else 0}"
    | .error e => s!"{i}:{showReadErr e}"
  let gh := ids.map fun i => match getHeader r i with
    | .ok (hd, h, f) => s!"{i}:{hd.id}:{h}:{if f then 1 else 0}"
    | .error e => s!"{i}:{showReadErr e}"
  let ph := ids.map fun i => match previousHash r i with
    | some (p, h) => s!"{i}:{p}:{h}"
    | none => s!"{i}:nil"
  let top := (tipHeight r + 1).toNat
  let ats := (List.range (top + 1)).map fun (k : Nat) => match headerAt r (Int.ofNat k) with
    | .ok hd => s!"{k}:{hd.id}"
    | .error e => s!"{k}:{showReadErr e}"
  let rng := fun (a : Int) (n : Nat) => match getHeaders r a n with
    | .ok l => s!"{a}+{n}:{showIds (l.map (·.id))}"
    | .error e => s!"{a}+{n}:{showReadErr e}"
  let th := tipHeight r
  let ranges := [rng 0 (top + 2), rng (if th ≥ 3 then th - 3 else 0) 10, rng (th / 2) 5]
  s!"{tipStr r} hh=[{joinWith "," hh}] ch=[{joinWith "," ch}] gh=[{joinWith "," gh}] ph=[{joinWith "," ph}] at=[{joinWith "," ats}] rg=[{joinWith ";" ranges}]"

def onOff (ws : List String) (k : String) (dflt : Bool) : Bool :=
  match kv ws k with
  | some "on" => true
  | some "off" => false
  | _ => dflt

def stepLine (s : DState) (line : String) : DState × String :=
  let ws := splitWords line
  match ws with
  | "init" :: rest =>
    let maxd : Int := (kvInt rest "maxdepth").getD 144
    let inv := ((kv rest "invalid").bind parseNatList).getD []
    let main := (kv rest "net") == some "main"
    let cfg := if main then mainCfg maxd inv else testCfg maxd inv
    let g : Hdr := if main then { id := 0, prev := 999999, bits := 0x1d00ffff, time := 1231006505 }
                   else { id := 0, prev := 999999, bits := 0x1d00ffff, time := 1296688602 }
    let r0 : Repo := { cfg := cfg, disableDifficulty := !(onOff rest "diff" false), disableSplit := !(onOff rest "split" true),
                       heights := [(0, 0)], invalid := inv }
    match newBranch r0 none (-1) g with
    | .ok b => ({ repo := { r0 with arena := [b], branches := [0], longest := 0 }, hdrs := [], genesis := g }, "ok")
    | .error _ => (s, "bad-op")
  | "hdr" :: rest =>
    match kvNat rest "id", kvNat rest "prev", kvNat rest "bits", kvNat rest "time" with
    | some id, some prev, some bits, some time =>
      let h : Hdr := { id := id, prev := prev, bits := bits, time := time, mr := (kvNat rest "mr").getD 0 }
      ({ s with hdrs := (id, h) :: s.hdrs }, "ok")
    | _, _, _, _ => (s, "bad-op")
  | "latest" :: rest =>
    -- MockLatest(header, height, work): a single root-less branch at that height
    match kvNat rest "id", kvInt rest "height", kvNat rest "work" with
    | some id, some height, some work =>
      match List.lookup id s.hdrs with
      | none => (s, "bad-op")
      | some h =>
        let b : Branch := { parent := none, parentHeight := height - 1, first := h, offset := 1,
                            headers := [{ hdr := h, work := work }], hmap := [(h.id, height)] }
        let r := { s.repo with arena := s.repo.arena ++ [b], branches := [s.repo.arena.length], longest := s.repo.arena.length }
        ({ s with repo := r }, tipStr r)
    | _, _, _ => (s, "bad-op")
  | "sub" :: rest =>
    match (kvNat rest "id").bind (fun i => List.lookup i s.hdrs) with
    | none => (s, "bad-op")
    | some h =>
      let hok := (kvNat rest "hok").getD 1 == 1
      let (r, out) := processHeader s.repo h hok
      ({ s with repo := r }, s!"v={showVerdict out.verdict} {tipStr r} ev={showIds (out.events.map (·.id))}")
  | "clean" :: _ =>
    let (r, e) := cleanWith s.repo (Facts.pruneDepth : Int)
    ({ s with repo := r }, s!"r={showFail "clean" e} {tipStr r}")
  | "cleand" :: rest =>
    match kvInt rest "d" with
    | some d => let (r, e) := cleanWith s.repo d; ({ s with repo := r }, s!"r={showFail "clean" e} {tipStr r}")
    | none => (s, "bad-op")
  | "save" :: _ =>
    let (r, e) := save s.repo
    ({ s with repo := r }, s!"r={showFail "save" e} {tipStr r}")
  | "load" :: _ =>
    let (r, e) := load s.repo (Facts.pruneDepth : Int) s.genesis
    match e with
    | none => ({ s with repo := r }, s!"r=ok {tipStr r}")
    | some f => (s, s!"r={showFail "load" (some f)}")
  | "loadd" :: rest =>
    match kvInt rest "d" with
    | some d =>
      let (r, e) := load s.repo d s.genesis
      match e with
      | none => ({ s with repo := r }, s!"r=ok {tipStr r}")
      | some f => (s, s!"r={showFail "load" (some f)}")
    | none => (s, "bad-op")
  | "subscribe" :: _ => (s, "ok")
  | "mark" :: rest =>
    match kvNat rest "id" with
    | some id => let (r, e) := markInvalid s.repo id; ({ s with repo := r }, s!"r={showFail "mark" e} {tipStr r}")
    | none => (s, "bad-op")
  | "unmark" :: rest =>
    match kvNat rest "id" with
    | some id => let r := markNotInvalid s.repo id; ({ s with repo := r }, s!"r=ok {tipStr r}")
    | none => (s, "bad-op")
  | "dump" :: _ => (s, dump s)
  | "loc" :: rest =>
    match kvNat rest "max" with
    | some m => (s, s!"loc={showLoc (locator s.repo m)}")
    | none => (s, "bad-op")
  | "vloc" :: _ => (s, s!"loc={showLoc (verifyOnlyLocator s.repo)}")
  | _ => (s, "bad-op")

def main : IO Unit := do
  let stdin ← IO.getStdin
  let stdout ← IO.getStdout
  let _ ← loopLines stdin (default : DState) fun s line => do
    if line.startsWith "#" || line.isEmpty then
      stdout.putStrLn line
      return s
    let op := opPart line
    let (s', out) := stepLine s op
    stdout.putStrLn s!"{op} => {out}"
    return s'
  stdout.flush
