/- Line-protocol driver for the header repository model (correspondence for C01, C03, C07–C12, C17–C19). -/
import BRV.Model.RepoOps
import BRV.Model.Locator
import BRV.Model.MainNet
import BRV.Model.ProofVerify
import BRV.Driver.Util
import BRV.Model.StoreCheck

open BRV BRV.Drv BRV.Repo

structure DState where
  repo : Repo := {}
  hdrs : List (Nat × Hdr) := []      -- headers defined by the script
  genesis : Hdr := { id := 0, prev := 999999, bits := 0x1d00ffff, time := 1231006505 }
  dumpFrom : Nat := 0     -- lowest height listed by dump (above 0 only after MockLatest)
  unstable : Bool := false -- more than 12 live branches were seen: Go's sort order is unspecified from here on
deriving Inhabited

def showVerdict : Verdict → String
  | .ok => "ok" | .known => "ok" | .unknown => "unknown" | .wrongChain => "wrongchain"
  | .badWork => "badwork" | .badBits => "badbits" | .invalid => "invalid" | .tooDeep => "toodeep"
  | .err m =>
    if (m.splitOn "Intersect not found").length > 1 then "err:intersect-not-found"
    else if (m.splitOn "Intersect missing").length > 1 then "err:intersect-missing"
    else if (m.splitOn "Height Unavailable").length > 1 then "err:height-unavailable"
    else if (m.splitOn "Wrong Previous Hash").length > 1 then "err:wrong-previous-hash"
    else if (m.splitOn "Header Data Not Found").length > 1 then "err:header-data-not-found"
    else if (m.splitOn "calculate target").length > 1 then "err:calculate-target"
    else if (m.splitOn "Header after genesis").length > 1 then "err:after-genesis"
    else "err:other"
  | .panic _ => "panic"

def showIds (l : List Nat) : String := "[" ++ joinWith "," (l.map toString) ++ "]"

/-- insertion sort of ids -/
def sortNat (l : List Nat) : List Nat :=
  l.foldl (fun acc x => let (lo, hi) := acc.span (· ≤ x); lo ++ [x] ++ hi) []

/-- Go's sort.Sort is only an insertion sort (stable, modelled) up to 12 elements; longer locators
    (where the order inside equal heights, hence which duplicates end up adjacent, is unspecified) are compared as sets. -/
def showLoc (l : List Nat) : String := if l.length > 10 then "set" ++ showIds (sortNat l).eraseDups else showIds l

def tipStr (r : Repo) : String := s!"h={tipHeight r} tip={tipId r} work={tipWork r}"

/-- the invalid-hash list as it is in storage. -/
def showStoredInvalid (r : Repo) : String :=
  match r.store.invalid with
  | none => "inv=none"
  | some l => s!"inv={showIds l}"

def showFail (stage : String) : Option Fail → String
  | none => "ok"
  | some (.err _) => "err:" ++ stage
  | some (.panic _) => "panic"

def showReadErr : ReadErr → String
  | .unknown => "unknown" | .notAvailable => "notavail" | .beyondTip => "beyond"
  | .fileRead => "err:read" | .fileShort => "err:short" | .wrongVersion => "err:version"

def dump (s : DState) (step : Nat := 1) : String :=
  let r := s.repo
  let ids := (s.hdrs.map (·.1)).reverse
  let ids := if ids.contains s.genesis.id then ids else s.genesis.id :: ids
  -- step > 1: a sample (every step-th id / height plus the first 6 and the last 60)
  let keepIdx := fun (i n v : Nat) => step ≤ 1 || v % step == 0 || i < 6 || i + 60 ≥ n
  let ids := (ids.zipIdx.filter fun (v, i) => keepIdx i ids.length v).map (·.1)
  let hh := ids.map fun i => s!"{i}:{(hashHeight r i).getD (-1)}"
  let ch := ids.map fun i => match checkHeader r i with
    | .ok (h, f) => s!"{i}:{h}:{if f then 1 else 0}"
    | .error e => s!"{i}:{showReadErr e}"
  let gh := ids.map fun i => match getHeader r i with
    | .ok (hd, h, f) => s!"{i}:{hd.id}:{h}:{if f then 1 else 0}"
    | .error e => s!"{i}:{showReadErr e}"
  let ph := ids.map fun i => match previousHash r i with
    | some (p, h) => s!"{i}:{p}:{h}"
    | none => s!"{i}:nil"
  let top := (tipHeight r + 1).toNat
  let ats := (((List.range (top + 1)).filter (· ≥ s.dumpFrom)).filter fun k => keepIdx (k - s.dumpFrom) (top + 1 - s.dumpFrom) k || (k ≥ 997 && (k % 1000 ≥ 997 || k % 1000 ≤ 3))).map fun (k : Nat) => match headerAt r (Int.ofNat k) with
    | .ok hd => s!"{k}:{hd.id}"
    | .error e => s!"{k}:{showReadErr e}"
  let rng := fun (a : Int) (n : Nat) => match getHeaders r a n with
    | .ok l => s!"{a}+{n}:{showIds (l.map (·.id))}"
    | .error e => s!"{a}+{n}:{showReadErr e}"
  let th := tipHeight r
  let df : Int := s.dumpFrom
  let fullN : Nat := if step > 1 && top > 100 + s.dumpFrom then top - 100 else s.dumpFrom
  let ranges := [rng (fullN : Int) (top + 2 - fullN), rng (if th ≥ 3 then th - 3 else 0) 10, rng (df + (th - df) / 2) 5]
  -- ranges across every main-file boundary below the tip, and one from the stored part into memory
  let bounds : List Nat := ((List.range (th.toNat / 1000 + 1)).map fun (k : Nat) => k * 1000).filter fun (b : Nat) =>
    decide (b ≥ 1000) && decide (Int.ofNat b < th) && decide (b ≥ s.dumpFrom + 3)
  let ranges := ranges ++ bounds.map (fun (b : Nat) => rng (Int.ofNat b - 3) 7)
    ++ (if th - 160 ≥ df then [rng (th - 160) 30] else [])
  s!"{tipStr r} hh=[{joinWith "," hh}] ch=[{joinWith "," ch}] gh=[{joinWith "," gh}] ph=[{joinWith "," ph}] at=[{joinWith "," ats}] rg=[{joinWith ";" ranges}]"

def evKind : StoreEv → String
  | .mainWrite f _ => s!"M{f}"
  | .mainRemove f => s!"R{f}"
  | .branchWrite k _ => s!"B{k}"
  | .indexWrite _ => "I"
  | .invalidWrite _ => "V"

/-- is the chain reported by the loaded repository linked from genesis to its tip? -/
def linkedFromGenesis (r : Repo) (g : Hdr) : Bool :=
  let h := tipHeight r
  let rec go : Nat → Int → Option Nat → Bool
    | 0, _, prev => prev == some (tipId r)
    | k + 1, i, prev =>
      match headerAt r i with
      | .error _ => false
      | .ok hd =>
        if (i == 0 && hd.id != g.id) || (i != 0 && some hd.prev != prev) then false
        else go k (i + 1) (some hd.id)
  if h < 0 then false else go (h.toNat + 1) 0 none

/-- load the image of every prefix of the storage events of one Save/Clean. -/
def crashPrefixes (s0 : Store) (evs : List StoreEv) (r : Repo) (g : Hdr) (depth : Int) : List String :=
  (List.range (evs.length + 1)).map fun k =>
    let st := (evs.take k).foldl Store.apply s0
    let (r', e) := load { r with store := st } depth g
    match e with
    | some (.panic _) => s!"{k}:panic"
    | some (.err _) => s!"{k}:err"
    | none => s!"{k}:ok:{tipHeight r'}:{tipId r'}:{tipWork r'}:{if linkedFromGenesis r' g then 1 else 0}"

/-- how many of the prefix images meet the hypothesis of the Load soundness theorem (`StoreOK`), among those
    that have a branch index at all (without one Load initialises from genesis). A `#` line: not compared. -/
def storeOKStats (s0 : Store) (evs : List StoreEv) : String :=
  let imgs := (List.range (evs.length + 1)).map fun k => (evs.take k).foldl Store.apply s0
  let withIdx := imgs.filter fun st => st.index.isSome
  let ok := withIdx.filter storeOKb
  let uq := withIdx.filter storeUniqB
  s!"# storeok images={imgs.length} indexed={withIdx.length} ok={ok.length} uniq={uq.length}"

/-- a Remove of a missing key is not an event (the harness only sees effective removals). -/
def effectiveEvents (s0 : Store) (evs : List StoreEv) : List StoreEv :=
  (evs.foldl (fun (acc : Store × List StoreEv) e =>
    match e with
    | .mainRemove f =>
      if (List.lookup f acc.1.main).isSome || (List.lookup f acc.1.mainV0).isSome then (acc.1.apply e, acc.2 ++ [e]) else acc
    | _ => (acc.1.apply e, acc.2 ++ [e])) (s0, [])).2

/-- the honest proof of transaction `ti` of the block header `hd` commits to, built with the model
    of the dependency's streaming tree. -/
def honestProof (hd : Hdr) (n ti : Nat) : Option Merkle.Proof :=
  let leaves := (List.range n).map fun i => Merkle.H.leaf (hd.id * 1000000 + i)
  let t := leaves.zipIdx.foldl (fun (t : Option Merkle.Tree) (x, i) =>
    match t with
    | none => none
    | some t => (if i = ti then t.addMerkleProof x else t).addHash x) (some (Merkle.newTree true))
  match t.bind Merkle.Tree.finalize with
  | some (_, [p]) => some p
  | _ => none

def showVErr : VErr → String
  | .unknown => "err:unknown" | .notAvailable => "err:notavail" | .read => "err:other"
  | .notVerifiable => "err:notverifiable" | .badIndex => "err:badindex" | .wrongRoot => "err:root"

def proofOp (s : DState) (rest : List String) : String :=
  match kvNat rest "block", kvNat rest "n", kvNat rest "tx" with
  | some bid, some n, some ti =>
    match List.lookup bid s.hdrs with
    | none => "bad-op"
    | some hd =>
      if ti ≥ n then "bad-op" else
      match honestProof hd n ti with
      | none => "bad-op"
      | some core =>
        let idx : Int := match core.index with | some i => (i : Int) | none => -1
        let byHash := kv rest "form" == some "hash"
        let both := kv rest "form" == some "both"
        let p0 : MProof := { index := idx, core := core, header := if byHash then none else some hd,
                             blockHash := if byHash || both then some hd.id else none }
        let mu := (kv rest "mut").getD "none"
        let p : Option MProof :=
          if mu == "none" then some p0
          else if mu == "txid" then some { p0 with core := { core with txid := Merkle.H.leaf 999999998 } }
          else if mu.startsWith "path:" then
            match (mu.drop 5).toString.toNat? with
            | some k => some { p0 with core := { core with path := if k < core.path.length then core.path.set k (Merkle.H.leaf 999999997) else core.path } }
            | none => none
          else if mu.startsWith "index:" then
            match (mu.drop 6).toString.toInt? with
            | some d => some { p0 with index := idx + d }
            | none => none
          else if mu.startsWith "other:" then
            match ((mu.drop 6).toString.toNat?).bind (fun o => List.lookup o s.hdrs) with
            | some oh => some { p0 with header := if byHash then none else some oh, blockHash := if byHash then some oh.id else p0.blockHash }
            | none => none
          else if mu.startsWith "otherhash:" then
            match ((mu.drop 10).toString.toNat?).bind (fun o => List.lookup o s.hdrs) with
            | some oh => some { p0 with blockHash := some oh.id }
            | none => none
          else if mu == "unknownhash" then some { p0 with header := none, blockHash := some 777777 }
          else if mu == "noblock" then some { p0 with header := none, blockHash := none }
          else none
        match p with
        | none => "bad-op"
        | some p =>
          match verifyMerkleProof s.repo mrOfBlock p with
          | .ok (h, f) => s!"r=ok h={h} longest={if f then 1 else 0}"
          | .error e => s!"r={showVErr e}"
  | _, _, _ => "bad-op"

def onOff (ws : List String) (k : String) (dflt : Bool) : Bool :=
  match kv ws k with
  | some "on" => true
  | some "off" => false
  | _ => dflt

def stepLine (s0 : DState) (line : String) : DState × String :=
  let s := { s0 with repo := { s0.repo with events := [] } }
  let ws := splitWords line
  match ws with
  | "init" :: rest =>
    let maxd : Int := (kvInt rest "maxdepth").getD 144
    let inv := ((kv rest "invalid").bind parseNatList).getD []
    let main := (kv rest "net") == some "main"
    let cfg := if main then mainCfg maxd inv else testCfg maxd inv
    let g : Hdr := if main then { id := 0, prev := 999999, bits := 0x1d00ffff, time := 1231006505 }
                   else { id := 0, prev := 999999, bits := 0x1d00ffff, time := 1296688602 }
    let r0 : Repo := { cfg := cfg, disableDifficulty := !(onOff rest "diff" false), disableSplit := !(onOff rest "split" true),
                       heights := [(0, 0)], invalid := inv }
    match newBranch r0 none (-1) g with
    | .ok b => ({ repo := { r0 with arena := [b], branches := [0], longest := 0 }, hdrs := [], genesis := g }, "ok")
    | .error _ => (s, "bad-op")
  | "hdr" :: rest =>
    match kvNat rest "id", kvNat rest "prev", kvNat rest "bits", kvNat rest "time" with
    | some id, some prev, some bits, some time =>
      let h : Hdr := { id := id, prev := prev, bits := bits, time := time, mr := (kvNat rest "mr").getD 0 }
      ({ s with hdrs := (id, h) :: s.hdrs }, "ok")
    | _, _, _, _ => (s, "bad-op")
  | "latest" :: rest =>
    -- MockLatest(header, height, work): a single root-less branch at that height
    match kvNat rest "id", kvInt rest "height", kvNat rest "work" with
    | some id, some height, some work =>
      match List.lookup id s.hdrs with
      | none => (s, "bad-op")
      | some h =>
        let b : Branch := { parent := none, parentHeight := height - 1, first := h, offset := 1,
                            headers := [{ hdr := h, work := work }], hmap := [(h.id, height)] }
        let r := { s.repo with arena := s.repo.arena ++ [b], branches := [s.repo.arena.length], longest := s.repo.arena.length }
        ({ s with repo := r, dumpFrom := (height - 1).toNat }, tipStr r)
    | _, _, _ => (s, "bad-op")
  | "sub" :: rest =>
    match (kvNat rest "id").bind (fun i => List.lookup i s.hdrs) with
    | none => (s, "bad-op")
    | some h =>
      let hok := (kvNat rest "hok").getD 1 == 1
      let (r, out) := processHeader s.repo h hok
      ({ s with repo := r }, s!"v={showVerdict out.verdict} {tipStr r} ev={showIds (out.events.map (·.id))}")
  | "clean" :: _ =>
    let (r, e) := cleanWith s.repo (Facts.pruneDepth : Int)
    ({ s with repo := r }, s!"r={showFail "clean" e} {tipStr r}")
  | "cleand" :: rest =>
    match kvInt rest "d" with
    | some d => let (r, e) := cleanWith s.repo d; ({ s with repo := r }, s!"r={showFail "clean" e} {tipStr r}")
    | none => (s, "bad-op")
  | "save" :: _ =>
    let (r, e) := save s.repo
    ({ s with repo := r }, s!"r={showFail "save" e} {tipStr r}")
  | "load" :: _ =>
    let (r, e) := load s.repo (Facts.pruneDepth : Int) s.genesis
    match e with
    | none => ({ s with repo := r }, s!"r=ok {tipStr r}\n{storeOKStats s.repo.store []}")
    | some f => (s, s!"r={showFail "load" (some f)}\n{storeOKStats s.repo.store []}")
  | "loadd" :: rest =>
    match kvInt rest "d" with
    | some d =>
      let (r, e) := load s.repo d s.genesis
      match e with
      | none => ({ s with repo := r }, s!"r=ok {tipStr r}\n{storeOKStats s.repo.store []}")
      | some f => (s, s!"r={showFail "load" (some f)}\n{storeOKStats s.repo.store []}")
    | none => (s, "bad-op")
  | "subscribe" :: _ => (s, "ok")
  | "crashsave" :: rest =>
    let s0 := s.repo.store
    let (r, e) := save { s.repo with events := [] }
    let evs := effectiveEvents s0 r.events
    let ld : Int := (kvInt rest "ld").getD (Facts.pruneDepth : Int)
    ({ s with repo := r }, s!"r={showFail "save" e} {tipStr r} ev=[{joinWith "," (evs.map evKind)}] p=[{joinWith "," (crashPrefixes s0 evs r s.genesis ld)}]\n{storeOKStats s0 evs}")
  | "crashclean" :: rest =>
    let s0 := s.repo.store
    let d : Int := (kvInt rest "d").getD (Facts.pruneDepth : Int)
    let (r, e) := cleanWith { s.repo with events := [] } d
    let evs := effectiveEvents s0 r.events
    let ld : Int := (kvInt rest "ld").getD (Facts.pruneDepth : Int)
    ({ s with repo := r }, s!"r={showFail "clean" e} {tipStr r} ev=[{joinWith "," (evs.map evKind)}] p=[{joinWith "," (crashPrefixes s0 evs r s.genesis ld)}]\n{storeOKStats s0 evs}")
  | "cfginv" :: rest =>
    match (kv rest "ids").bind parseNatList with
    | some ids => ({ s with repo := { s.repo with cfg := { s.repo.cfg with cfgInvalid := ids } } }, "ok")
    | none => (s, "bad-op")
  | "mark" :: rest =>
    match kvNat rest "id" with
    | some id => let (r, e) := markInvalid s.repo id; ({ s with repo := r }, s!"r={showFail "mark" e} {tipStr r} {showStoredInvalid r}")
    | none => (s, "bad-op")
  | "unmark" :: rest =>
    match kvNat rest "id" with
    | some id => let r := markNotInvalid s.repo id; ({ s with repo := r }, s!"r=ok {tipStr r} {showStoredInvalid r}")
    | none => (s, "bad-op")
  | "dump" :: rest => (s, dump s ((kvNat rest "step").getD 1))
  | "loc" :: rest =>
    match kvNat rest "max" with
    | some m => (s, s!"loc={showLoc (locator s.repo m)}")
    | none => (s, "bad-op")
  | "verify" :: rest =>
    match (kvNat rest "id").bind (fun i => List.lookup i s.hdrs) with
    | none => (s, "bad-op")
    | some h => (s, s!"v={showVerdict (verifyHeader s.repo h)}")
  | "proof" :: rest => (s, proofOp s rest)
  | "vloc" :: _ => (s, s!"loc={showLoc (verifyOnlyLocator s.repo)}")
  | _ => (s, "bad-op")

def main : IO Unit := do
  let stdin ← IO.getStdin
  let stdout ← IO.getStdout
  let _ ← loopLines stdin (default : DState) fun s line => do
    if line.startsWith "#" || line.isEmpty then
      stdout.putStrLn line
      return s
    let op := opPart line
    let (s1, out) := stepLine s op
    -- `sort.Sort` is a stable insertion sort only up to 12 elements. Once more than 12 branches are
    -- live the order the Go code gives them (and with it Find's first hit, Longest's tie-break, the
    -- order of branch file writes) is unspecified: the rest of that script is not compared.
    let fresh := op.startsWith "init"
    -- a storage outage (`storefail`) is not modelled either: storage writes of the model cannot fail.
    let outage := op.startsWith "storefail"
    let unstable := if fresh then false else (s.unstable || s1.repo.branches.length > 12 || outage)
    let s' := { s1 with unstable := unstable }
    if unstable then
      if !s.unstable then stdout.putStrLn (if outage then "# unmodelled from here: storage outage (writes fail)"
        else "# unmodelled from here: more than 12 live branches (sort order unspecified)")
      let obs := match line.splitOn " => " with
        | _ :: rest => " => ".intercalate rest
        | [] => out
      stdout.putStrLn s!"{op} => {obs}"
    else
      stdout.putStrLn s!"{op} => {out}"
    return s'
  stdout.flush
