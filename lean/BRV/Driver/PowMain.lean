/- Line-protocol driver for the proof-of-work model (correspondence for C02). -/
import BRV.Model.Pow
import BRV.Driver.Util

open BRV BRV.Drv BRV.Pow

structure DState where
  free : Branches := []                    -- branches built through NewBranch / Add directly
  names : List (String × Nat) := []
  nextId : Nat := 1                        -- synthetic header hashes of the free branches
  repo : Repo := {}

def hexToNat? (s : String) : Option Nat :=
  if s.isEmpty then none else
  s.toList.foldl (fun acc c => match acc, hexDigit c with
    | some a, some d => some (a * 16 + d)
    | _, _ => none) (some 0)

def hexToInt? (s : String) : Option Int :=
  if s.startsWith "-" then (hexToNat? (s.drop 1).toString).map (fun n => -(n : Int))
  else (hexToNat? s).map (fun n => (n : Int))

def natToHex (n : Nat) : String :=
  if n = 0 then "0" else
  let rec go (fuel n : Nat) (acc : List Char) : List Char :=
    match fuel with
    | 0 => acc
    | fuel + 1 => if n = 0 then acc else go fuel (n / 16) (hexChar (n % 16) :: acc)
  String.ofList (go (n.log2 / 4 + 2) n [])

def intToHex (i : Int) : String := if i < 0 then "-" ++ natToHex i.natAbs else natToHex i.natAbs

def kvHex (ws : List String) (k : String) : Option Nat := (kv ws k).bind hexToNat?

def lookupName (s : DState) (n : String) : Option Nat := s.names.lookup n

def showBranchResult (bs : Branches) (i : Nat) : BranchResult → String
  | .ok =>
    match bs[i]? with
    | some b => s!"ok h={b.height} acc={natToHex (lastAcc b)}"
    | none => "ok"
  | .errNotFound => "err:notfound"
  | .errWrongPrev => "err:wrongprev"
  | .noBranch => "err:nobranch"
  | .panic => "panic"

def showTarget : TargetResult → String
  | .ok t => s!"bits={targetBits t} t={intToHex t}"
  | .errLast => "err:last"
  | .errFirst => "err:first"

def showTargetShort : TargetResult → String
  | .ok t => s!"{targetBits t}"
  | .errLast => "err:last"
  | .errFirst => "err:first"

def showVerdict : Verdict → String
  | .ok => "ok"
  | .notEnoughWork => "err:not-enough-work"
  | .wrongChain => "err:wrong-chain"
  | .unknownHeader => "err:unknown-header"
  | .invalidTarget => "err:invalid-target"
  | .targetErr => "err:calculate-target"
  | .beyondDepth => "err:beyond-depth"
  | .newBranchErr => "err:new-branch"
  | .intersectErr => "err:intersect"
  | .panic => "panic"

/-- hash of the last header of a free branch (0 = none). -/
def tipHash (bs : Branches) (i : Nat) : Nat :=
  ((bs[i]?.bind (·.hdrs.getLast?)).map (·.hash)).getD 0

/-- `n` successive `Add`s with timestamps `t, t+dt, …` (uint32 wrap); stops at the first failure. -/
def addRun : Nat → DState → Nat → Int → Int → Nat → DState × BranchResult
  | 0, s, _, _, _, _ => (s, .ok)
  | n + 1, s, i, t, dt, bits =>
    let time := (t % (2 ^ 32 : Int)).toNat
    let (bs', r) := addHeader s.free i s.nextId (tipHash s.free i) time bits
    let s' := { s with free := bs', nextId := s.nextId + 1 }
    if r ≠ .ok then (s', r) else addRun n s' i (t + dt) dt bits

def stepLine (s : DState) (line : String) : DState × String :=
  let ws := splitWords line
  match ws with
  | "init" :: _ => ({}, "ok")
  | "consts" :: _ =>
    (s, s!"maxbits={maxBits} maxwork={natToHex maxWork} all={natToHex all256Bits}")
  | "cvt" :: rest =>
    match kvNat rest "bits" with
    | some bits =>
      match convertToDifficulty bits with
      | none => (s, "d=panic")
      | some d => (s, s!"d={natToHex d} w={natToHex (convertToWork d)} rb={convertToBits d maxBits}")
    | none => (s, "bad-op")
  | "tobits" :: rest =>
    match (kv rest "t").bind hexToInt?, kvNat rest "max" with
    | some t, some mx => (s, s!"bits={convertToBits t.natAbs mx}")
    | _, _ => (s, "bad-op")
  | "towork" :: rest =>
    match (kv rest "d").bind hexToInt? with
    | some d =>
      match convertToWorkInt d with
      | none => (s, "panic")
      | some w => (s, s!"w={intToHex w}")
    | none => (s, "bad-op")
  | "branch" :: rest =>
    match kv rest "name", kv rest "parent", kvInt rest "ph", kvNat rest "t", kvNat rest "bits" with
    | some name, some pn, some ph, some t, some bits =>
      let bad := kv rest "badprev" == some "1"
      let parent := if pn == "-" then some none else (lookupName s pn).map some
      match parent with
      | none => (s, "err:nobranch")
      | some parent =>
        let prev := match parent with
          | none => 0
          | some p => if bad then 0 else ((atHeight s.free p ph).map (·.hash)).getD 0
        let (bs', r) := newBranch s.free parent ph s.nextId prev t bits
        let idx := s.free.length
        let s' := { s with free := bs', nextId := s.nextId + 1,
                           names := if r = .ok then (name, idx) :: s.names else s.names }
        (s', showBranchResult bs' idx r)
    | _, _, _, _, _ => (s, "bad-op")
  | "add" :: rest =>
    match (kv rest "name").bind (lookupName s), kvNat rest "t", kvNat rest "bits" with
    | some i, some t, some bits =>
      let bad := kv rest "badprev" == some "1"
      let prev := if bad then 0 else tipHash s.free i
      let (bs', r) := addHeader s.free i s.nextId prev t bits
      ({ s with free := bs', nextId := s.nextId + 1 }, showBranchResult bs' i r)
    | none, _, _ => (s, "err:nobranch")
    | _, _, _ => (s, "bad-op")
  | "addt" :: rest =>
    match (kv rest "name").bind (lookupName s), kvNat rest "t", kvNat rest "bits" with
    | some i, some t, some bits =>
      let h := (s.free[i]?.map Branch.height).getD 0 + 1
      let tb := showTargetShort (target s.free i h)
      let (bs', r) := addHeader s.free i s.nextId (tipHash s.free i) t bits
      ({ s with free := bs', nextId := s.nextId + 1 }, showBranchResult bs' i r ++ s!" tb={tb}")
    | none, _, _ => (s, "err:nobranch")
    | _, _, _ => (s, "bad-op")
  | "run" :: rest =>
    match (kv rest "name").bind (lookupName s), kvNat rest "n", kvInt rest "t", kvInt rest "dt", kvNat rest "bits" with
    | some i, some n, some t, some dt, some bits =>
      let (s', r) := addRun n s i t dt bits
      (s', showBranchResult s'.free i r)
    | none, _, _, _, _ => (s, "err:nobranch")
    | _, _, _, _, _ => (s, "bad-op")
  | "target" :: rest =>
    match (kv rest "name").bind (lookupName s), kvInt rest "h" with
    | some i, some h => (s, showTarget (target s.free i h))
    | none, _ => (s, "err:nobranch")
    | _, _ => (s, "bad-op")
  | "median" :: rest =>
    match (kv rest "name").bind (lookupName s), kvInt rest "h" with
    | some i, some h =>
      match medianTimeAndWork s.free i h with
      | some m => (s, s!"t={m.time} w={natToHex m.work}")
      | none => (s, "err:notfound")
    | none, _ => (s, "err:nobranch")
    | _, _ => (s, "bad-op")
  | "repo" :: _ => ({ s with repo := {} }, "ok")
  | "diff" :: rest =>
    match kvNat rest "on" with
    | some v => ({ s with repo := { s.repo with diffOn := v != 0 } }, "ok")
    | none => (s, "bad-op")
  | "mock" :: rest =>
    match kvInt rest "h", kvHex rest "work", kvHex rest "hash", kvHex rest "prev", kvNat rest "t", kvNat rest "bits" with
    | some h, some work, some hash, some prev, some t, some bits =>
      let (r', ok) := mockLatest s.repo h work hash prev t bits
      ({ s with repo := r' }, if ok then "ok" else "panic")
    | _, _, _, _, _, _ => (s, "bad-op")
  | "ph" :: rest =>
    match kvHex rest "hash", kvHex rest "prev", kvNat rest "t", kvNat rest "bits" with
    | some hash, some prev, some t, some bits =>
      let (r', v) := processHeader s.repo hash prev t bits
      ({ s with repo := r' }, showVerdict v)
    | _, _, _, _ => (s, "bad-op")
  | _ => (s, "bad-op")

def main : IO Unit := do
  let stdin ← IO.getStdin
  let stdout ← IO.getStdout
  let _ ← loopLines stdin ({} : DState) fun s line => do
    if line.startsWith "#" || line.isEmpty then
      stdout.putStrLn line
      return s
    let op := opPart line
    let (s', out) := stepLine s op
    stdout.putStrLn s!"{op} => {out}"
    return s'
  stdout.flush
