/- Line-protocol driver for the merkle tree / handleBlock model (correspondence for C04).

   op:  block n=<N> height=<h> count=<C> recv=[ids] rel=[call indices] hdr=ok|wrong perr=<k|-> cancel=<k|->
              pre=0|1 cend=0|1 cberr=0|1 cferr=<k|-> sterr=0|1
   The true block is the transactions 0..N-1 (the header commits to their root); `recv` is what comes
   out of the channel. Observation: ret=<class> complete=<class> calls=<call>;<call>;...
   Hashes inside proofs are printed as a 64-bit digest of the term (the harness maps the real
   double-SHA-256 values to the same digests through the tree it knows). -/
import BRV.Model.BlockHandle
import BRV.Driver.Util

open BRV BRV.Drv BRV.Merkle

def leafDigest (n : Nat) : UInt64 :=
  let x : UInt64 := (n + 1).toUInt64 * (0x9E3779B97F4A7C15 : UInt64)
  x ^^^ (x >>> 31)

def nodeDigest (a b : UInt64) : UInt64 :=
  let x : UInt64 := a * (0xBF58476D1CE4E5B9 : UInt64) + (b ^^^ (b >>> 29)) * (0x94D049BB133111EB : UInt64) + (0x632BE59BD9B4E019 : UInt64)
  let x := x ^^^ (x >>> 32)
  let x : UInt64 := x * (0xD6E8FEB86659FD93 : UInt64)
  x ^^^ (x >>> 32)

def digest : H → UInt64
  | .leaf n => leafDigest n
  | .node l r => nodeDigest (digest l) (digest r)

def showTxid : H → String
  | .leaf n => toString n
  | h => "d" ++ toString (digest h).toNat

def showResult : Result → String
  | .ok => "ok"
  | .cancelled => "cancelled"
  | .wrongBlock => "wrongblock"
  | .wrongRoot => "wrongroot"
  | .proofCount => "proofcount"
  | .proofInvalid => "proof-err"
  | .processErr => "ptx-err"
  | .coinbaseErr => "cb-err"
  | .confirmErr => "confirm-err"
  | .storeErr => "store-err"
  | .panic => "panic"

def showVerify : VerifyResult → String
  | .ok => "ok"
  | .badIndex => "badindex"
  | .wrongRoot => "wrongroot"

def showCall (env : Env) : Call → String
  | .processTx t => "p" ++ showTxid t
  | .processCoinbase bh t =>
    "cb" ++ (match t with | some t => showTxid t | none => "-") ++ (if bh = env.requested then "" else "!")
  | .confirm t h p hdr bh =>
    let idx := match p.index with | some i => toString i | none => "-1"
    s!"c{showTxid t}@{h}#{idx}[{joinWith "," (p.path.map fun s => toString (digest s).toNat)}][{joinWith "," (p.dups.map toString)}]={showVerify (p.verify hdr.root)}"
      ++ (if bh = env.requested then "" else "!")
  | .appendTxIDs bh ids =>
    s!"ap[{joinWith "," (ids.map showTxid)}]" ++ (if bh = env.requested then "" else "!")

def kvOptNat (ws : List String) (key : String) : Option (Option Nat) :=
  match kv ws key with
  | none => none
  | some "-" => some none
  | some s => (s.toNat?).map some

def kvBool (ws : List String) (key : String) : Option Bool :=
  match kv ws key with
  | some "0" => some false
  | some "1" => some true
  | _ => none

def runBlock (ws : List String) : Option String := do
  let n ← kvNat ws "n"
  let height ← kvInt ws "height"
  let count ← kvNat ws "count"
  let recv ← (kv ws "recv").bind parseNatList
  let rel ← (kv ws "rel").bind parseNatList
  let hdr ← kv ws "hdr"
  let perr ← kvOptNat ws "perr"
  let cancel ← kvOptNat ws "cancel"
  let pre ← kvBool ws "pre"
  let cend ← kvBool ws "cend"
  let cberr ← kvBool ws "cberr"
  let cferr ← kvOptNat ws "cferr"
  let sterr ← kvBool ws "sterr"
  let trueRoot := merkleRoot ((List.range n).map H.leaf)
  let requested : Header := { root := trueRoot, nonce := 0 }
  let header : Header := if hdr == "ok" then requested else { root := trueRoot, nonce := 1 }
  let env : Env := {
    requested := requested, height := height,
    proc := fun k => if perr == some k then .error else if rel.contains k then .relevant else .notRelevant,
    preCancelled := pre, cancelDuring := cancel, cancelAfterLast := cend,
    coinbaseErr := cberr, confirmErr := cferr, storeErr := sterr }
  let out := handleBlock env header count (recv.map H.leaf)
  let calls := if out.calls.isEmpty then "-" else joinWith ";" (out.calls.map (showCall env))
  return s!"ret={showResult out.ret} complete={showResult out.complete} calls={calls}"

def stepLine (line : String) : String :=
  match splitWords line with
  | "init" :: _ => "ok"
  | "block" :: rest => (runBlock rest).getD "bad-op"
  | _ => "bad-op"

def main : IO Unit := do
  let stdin ← IO.getStdin
  let stdout ← IO.getStdout
  let _ ← loopLines stdin () fun _ line => do
    if line.startsWith "#" || line.isEmpty then
      stdout.putStrLn line
      return ()
    let op := opPart line
    stdout.putStrLn s!"{op} => {stepLine op}"
    return ()
  stdout.flush
