/- Line-protocol driver for the block-manager model (correspondence for C16, stream `blkmgr`).

The harness performs one call (AddRequest, close(abort), interrupt, "deliver the block to downloader
d", "downloader d's peer fails") and waits until the manager is at rest. The driver applies the same
call to the small-step model and then runs the model's internal steps to rest with a fixed
scheduler (finish returned downloaders, let cancelled downloaders return, let the manager take /
request / tick until nothing changes). `accept` is the scripted requestor's budget of RequestBlock
calls it will still serve. -/
import BRV.Model.BlockMgr
import BRV.Driver.Util

open BRV BRV.Drv BRV.BlockMgr

structure DState where
  s : MSt := init 1
  accept : Nat := 0

/-- one scheduling decision; `none` when the model is at rest. -/
def pick (d : DState) : Option (MLabel × Nat) :=
  let s := d.s
  match s.dls.findIdx? (fun x => x.ret.isSome) with
  | some i => some (.dlFinish i, d.accept)
  | none =>
    match s.dls.findIdx? (fun x => x.cancelled && x.ret.isNone) with
    | some i => some (.dlReturn i false, d.accept)
    | none =>
      match s.pc with
      | .idle =>
        match s.queue with
        | _ :: _ => some (.take, d.accept)
        | [] => if s.closed then some (.mgrEnd, d.accept) else none
      | .initial _ => if d.accept > 0 then some (.reqInitial true, d.accept - 1) else some (.reqInitial false, 0)
      | .loop r _ =>
        if r.abortReq then some (.mgrAbort, d.accept)
        else if s.curDone then some (.mgrComplete, d.accept)
        else if s.intr then some (.mgrIntr, d.accept)
        else
          let active := countHash s.dls r.hash
          if active < s.conc ∧ d.accept > 0 then some (.tick true, d.accept - 1)
          else if active == 0 then some (.tick false, d.accept)
          else none
      | .dead _ => none

def saturate (fuel : Nat) (d : DState) : DState :=
  match fuel with
  | 0 => d
  | fuel + 1 =>
    match pick d with
    | none => d
    | some (l, acc) =>
      match step d.s l with
      | some s' => saturate fuel { s := s', accept := acc }
      | none => d

def showSig : Sig → String
  | .closed => "closed" | .aborted => "aborted"

def obsOf (d : DState) : String :=
  let sg := d.s.sigs.map (fun x => s!"{x.1}:{showSig x.2.2}")
  let alive := match d.s.pc with | .dead _ => 0 | _ => 1
  -- downloaders registered for a block other than the one being requested now
  let stale := match d.s.pc with
    | .loop r _ => (d.s.dls.filter (fun (x : Dl) => x.hash != r.hash)).length
    | .initial r => (d.s.dls.filter (fun (x : Dl) => x.hash != r.hash)).length
    | _ => d.s.dls.length
  s!"sigs=[{joinWith "," sg}] dls={d.s.dls.length} stale={stale} alive={alive}"

def call (d : DState) (l : MLabel) (note : String := "") : DState × String :=
  match step d.s l with
  | some s' => let d' := saturate 400 { d with s := s' }; (d', obsOf d' ++ note)
  | none => (d, obsOf d ++ " ign=1")

def dlHashNote (d : DState) (i : Nat) : String :=
  match d.s.dls.find? (fun x => x.id == i) with
  | some x => s!" dh={x.hash}"
  | none => ""

def stepLine (d : DState) (op : String) : DState × String :=
  let ws := splitWords op
  match ws with
  | "init" :: rest => ({ s := init ((kvNat rest "conc").getD 1) }, "ok")
  | "policy" :: rest =>
    let d' := saturate 400 { d with accept := (kvNat rest "accept").getD 0 }
    (d', obsOf d')
  | "add" :: rest =>
    match kvNat rest "h" with
    | some h =>
      if d.s.closed then (d, obsOf d ++ " refused=1") else call d (.add h)
    | none => (d, "bad-op")
  | "abort" :: rest =>
    match kvNat rest "r" with
    | some r =>
      -- the harness only aborts the request that is being processed
      let cur := match d.s.pc with | .loop q _ => q.id == r | _ => false
      if cur then call d (.abortEnv r) else (d, obsOf d ++ " ign=1")
    | none => (d, "bad-op")
  | "slow" :: rest =>
    -- how long a peer takes to answer CancelBlockRequest is not visible at rest: no model step
    match kvNat rest "d" with
    | some i => if i < d.s.nextDl then (d, obsOf d) else (d, obsOf d ++ " ign=1")
    | none => (d, obsOf d)
  | "intr" :: _ => call d .interrupt
  | "deliver" :: rest =>
    match kvNat rest "d" with
    | some i =>
      match d.s.dls.findIdx? (fun x => x.id == i && !x.cancelled && x.ret.isNone) with
      | some k => call d (.dlReturn k true) (dlHashNote d i)
      | none => (d, obsOf d ++ " ign=1")
 
    | none => (d, "bad-op")
  | "fail" :: rest =>
    match kvNat rest "d" with
    | some i =>
      match d.s.dls.findIdx? (fun x => x.id == i && !x.cancelled && x.ret.isNone) with
      | some k => call d (.dlReturn k false) (dlHashNote d i)
      | none => (d, obsOf d ++ " ign=1")
 
    | none => (d, "bad-op")
  | "end" :: _ => (d, obsOf d)
  | _ => (d, "bad-op")

def main : IO Unit := do
  let stdin ← IO.getStdin
  let stdout ← IO.getStdout
  let _ ← loopLines stdin ({} : DState) fun s line => do
    if line.startsWith "#" || line.isEmpty then
      stdout.putStrLn line
      return s
    let op := opPart line
    let (s', out) := stepLine s op
    stdout.putStrLn s!"{op} => {out}"
    return s'
  stdout.flush
