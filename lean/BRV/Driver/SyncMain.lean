/- Line-protocol driver for the block synchronisation model (correspondence for C05).
   The header view (chain=, window=) and the processed ids (ids=) are environment inputs that the
   harness wrote into the op text; everything after ` => ` is predicted by the model. -/
import BRV.Model.Sync
import BRV.Driver.Util

open BRV BRV.Drv BRV.Sync

def parseOutcome (s : String) : Option (List Outcome) :=
  let (name, cnt) :=
    match s.splitOn "*" with
    | [a, b] => (a, b.toNat?)
    | _ => (s, some 1)
  let o : Option Outcome :=
    if name == "ok" then some .ok
    else if name == "nonode" then some .nonode
    else if name == "drop" then some .drop
    else if name == "wrong" then some .wrong
    else if name == "hang" then some .hang
    else none
  match o, cnt with
  | some o, some n => if n ≤ 1000 then some (List.replicate n o) else none
  | _, _ => none

def parseSrc (ws : List String) : Option (List Outcome) :=
  match kv ws "src" with
  | none => some []
  | some s =>
    if !(s.startsWith "[" && s.endsWith "]") then none else
    let inner := ((s.drop 1).dropEnd 1).toString
    if inner == "" then some [] else
    (inner.splitOn ",").foldl (fun acc p =>
      match acc, parseOutcome p with
      | some l, some o => some (l ++ o)
      | _, _ => none) (some [])

/-- `[7:7:6,8:8:7]` : side blocks (id:height:parent). -/
def parseSide (s : String) : Option (List (Nat × Nat × Nat)) :=
  let inner := ((s.drop 1).dropEnd 1).toString
  if inner == "" then some [] else
  (inner.splitOn ",").mapM fun item =>
    match (item.splitOn ":").mapM String.toNat? with
    | some [a, b, c] => some (a, b, c)
    | _ => none

/-- `chain<sfx>=[..] window<sfx>=k [side<sfx>=[..]]` -/
def parseViewSfx (ws : List String) (sfx : String) : Option View :=
  match (kv ws ("chain" ++ sfx)).bind parseNatList, kvNat ws ("window" ++ sfx) with
  | some c, some w =>
    match kv ws ("side" ++ sfx) with
    | none => some { chain := c, window := w }
    | some t => (parseSide t).map fun sd => { chain := c, window := w, side := sd }
  | _, _ => none

def parseView (ws : List String) : Option View := parseViewSfx ws ""

/-- `inject=<Kind>#<k>:<hdr args>` → (kind, k). -/
def parseInject (s : String) : Option (Call × Nat) :=
  match s.splitOn ":" with
  | head :: _ =>
    match head.splitOn "#" with
    | [kind, k] =>
      let c : Option Call :=
        if kind == "LastHash" then some .lastHash
        else if kind == "HashHeight" then some .hashHeight
        else if kind == "PreviousHash" then some .previousHash
        else if kind == "Hash" then some .hash
        else if kind == "Height" then some .height
        else none
      match c, k.toNat? with
      | some c, some k => if k ≥ 1 then some (c, k) else none
      | _, _ => none
    | _ => none
  | [] => none

def showIds (l : List Nat) : String := "[" ++ joinWith "," (l.map toString) ++ "]"
def showConf (l : List (Nat × Nat)) : String :=
  "[" ++ joinWith "," (l.map fun (a, h) => s!"{a}@{h}") ++ "]"

def insertSorted (x : Nat) : List Nat → List Nat
  | [] => [x]
  | y :: ys => if x < y then x :: y :: ys else if x = y then y :: ys else y :: insertSorted x ys

def sortDedup (l : List Nat) : List Nat := l.foldl (fun acc x => insertSorted x acc) []

def retText (d : D) : String :=
  if d.threadMode then
    match d.hung, d.waiting with
    | true, some w => s!"pending pend={w.hash}"
    | _, _ => "quiet"
  else
    match d.s.rs with
    | .ended .interrupted => "interrupted"
    | .ended .errHeaderHash => "err:header-hash"
    | .ended .errPrevHash => "err:prev-hash"
    | .ended .panicDoubleClose => "panic"
    | .ended .panicNilClose => "panic"
    | .ended _ => "ok"
    | .waiting w => if d.hung then s!"pending pend={w.hash}" else "stalled"

/-- print and clear the per-op logs. -/
def flush (d : D) : D × String :=
  ({ d with reqLog := [], cb := [], conf := [] },
   s!"reqs={showIds d.reqLog} cb={showIds d.cb} conf={showConf d.conf} ret={retText d}")

def go (d : D) : D := drive (driveFuel d) d

def stepLine (od : Option D) (line : String) : Option D × String :=
  let ws := splitWords line
  match ws with
  | "init" :: rest =>
    match parseView rest with
    | some v => (some { s := { start := (kvNat rest "start").getD 0, view := v } }, "ok")
    | none => (none, "bad-op")
  | verb :: rest =>
    match od with
    | none => (none, "bad-op")
    | some d =>
      if verb == "hdr" || verb == "prune" then
        match parseView rest with
        | some v => (some { d with s := step d.s (.setView v) }, "ok")
        | none => (od, "bad-op")
      else if verb == "processed" then
        match (kv rest "ids").bind parseNatList with
        | some ids => (some { d with s := { d.s with processed := d.s.processed ++ ids } }, "ok")
        | none => (od, "bad-op")
      else if verb == "round" then
        match parseSrc rest with
        | some outs =>
          if d.waiting.isSome || d.hung || d.threadMode then (od, "bad-op") else
          match kv rest "inject" with
          | none =>
            let d := go { d with outs := outs, s := startRound d.s }
            let (d, o) := flush d
            (some d, o)
          | some spec =>
            match parseInject spec with
            | none => (od, "bad-op")
            | some (c, k) =>
              -- the harness wrote the view after the change into the op text when it happened
              let E : Env :=
                match parseViewSfx rest "2" with
                | some v2 => injectEnv d.s.view v2 c k
                | none => fun _ => d.s.view
              let hist := (planResE E d.s.isProcessed d.s.start).2
              let fired := (hist.filter (· == c)).length ≥ k
              let d := go { d with outs := outs, s := startRoundE d.s E }
              let (d, o) := flush d
              (some d, o ++ (if fired then " inj=1" else " inj=0"))
        | none => (od, "bad-op")
      else if verb == "release" then
        match d.hung, d.waiting, parseSrc rest with
        | true, some w, some outs =>
          let outs := if (kv rest "src").isSome then outs else d.outs
          let d := { d with hung := false, outs := outs, cb := d.cb ++ [w.hash],
                            conf := d.conf ++ [(w.hash, w.height)], s := step d.s .complete }
          let (d, o) := flush (go d)
          (some d, o)
        | _, _, _ => (od, "bad-op")
      else if verb == "poll" then
        if !d.threadMode && d.waiting.isNone then (od, "bad-op") else
        let s1 := step d.s .poll
        let serving := !d.s.mgrClosed && !d.mgrStale
        let d :=
          match s1.rs with
          | .waiting w =>
            if w.abortClosed && !w.nilChans && serving then
              { d with s := step s1 .aborted, hung := false }
            else { d with s := s1 }
          | .ended _ => { d with s := s1, hung := false }
        let (d, o) := flush (go d)
        (some d, o)
      else if verb == "interrupt" then
        if d.threadMode || d.waiting.isNone then (od, "bad-op") else
        let d := { d with s := step d.s .interrupt, mgrStale := d.mgrStale || d.hung, hung := false }
        let (d, o) := flush d
        (some d, o)
      else if verb == "startup" || verb == "trigger" then
        match parseSrc rest with
        | some outs =>
          if !d.threadMode && d.waiting.isSome then (od, "bad-op") else
          let t' := tstep d.t (if verb == "startup" then .delayComplete else .trigger)
          let started := t'.rounds > d.t.rounds
          let d := { d with threadMode := true, outs := outs, t := t' }
          let d := if started then go { d with s := startRound d.s } else d
          let (d, o) := flush d
          (some d, o)
        | none => (od, "bad-op")
      else if verb == "state" then
        (od, s!"processed={showIds (sortDedup d.s.processed)}")
      else (od, "bad-op")
  | [] => (od, "bad-op")

def main : IO Unit := do
  let stdin ← IO.getStdin
  let stdout ← IO.getStdout
  let _ ← loopLines stdin (none : Option D) fun s line => do
    if line.startsWith "#" || line.isEmpty then
      stdout.putStrLn line
      return s
    let op := opPart line
    let (s', out) := stepLine s op
    stdout.putStrLn s!"{op} => {out}"
    return s'
  stdout.flush
