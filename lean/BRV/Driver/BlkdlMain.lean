/- Line-protocol driver for the block-downloader signalling model (correspondence for C16, stream `blkdl`).

The model is nondeterministic (the order of the internal steps after a call, e.g. which ready case a
`select` takes), so the driver keeps the SET of model states compatible with what was observed so
far. After each call it computes every quiescent state the model allows. If they all show the same
observation it prints that; otherwise it prints the implementation's observation when (and only
when) the model allows it, and `model-rejects ...` when it does not. -/
import BRV.Model.BlockDl
import BRV.Driver.Util

open BRV BRV.Drv BRV.BlockDl

structure DState where
  belief : List St := []
  ans : Bool := false       -- what the scripted canceller answers next
  cok : Bool := true        -- whether the confirmations succeed
  hold : Bool := false      -- the confirmations wait for an explicit `hconfirm`
  root : Bool := true       -- the block's merkle root matches its header

def showErr : Err → String
  | .ok => "ok" | .cancelled => "cancelled" | .wrong => "wrong" | .fail => "fail"

def showRet : Ret → String
  | .err e => showErr e | .interrupted => "interrupted" | .timeout => "timeout"

def showRun : RunPc → String
  | .idle => "idle"
  | .returned r => showRet r
  | _ => "pending"

def showHdl : HPc → String
  | .idle => "idle"
  | .loop _ => "busy"
  | .flush _ => "busy"
  | .confirming => "busy"
  | .done .wrong => "ret:ok"      -- HandleBlock returns nil after reporting the wrong block
  | .done e => "ret:" ++ showErr e
  | _ => "mid"

def obsOf (s : St) (ign : Bool) : String :=
  s!"run={showRun s.run} s={s.qS.length} c={s.qC.length} h={showHdl s.hdl} cb={if s.confirmed then 1 else 0}" ++
    (if ign then " ign=1" else "")

def extraOf (d : DState) (_s : St) : List Label :=
  if d.hold then [.rCancelDecide d.ans] else [.rCancelDecide d.ans, .hConfirm d.cok]

def dedupStr (xs : List String) : List String :=
  xs.foldl (fun acc x => if acc.contains x then acc else acc ++ [x]) []

/-- apply one call to every believed state, settle, and resolve against the observation. -/
def applyCall (d : DState) (l : Label) (seen : String) : DState × String :=
  let cands : List (St × Bool) := d.belief.foldl (fun acc s =>
    match step s l with
    | .next s' => acc ++ (settle 64 (extraOf d) [s']).map (fun q => (q, false))
    | .disabled => acc ++ [(s, true)]
    | .blocked => acc) []
  let blocked := d.belief.any (fun s => step s l == .blocked) || cands.any (fun c => anyBlocked c.1)
  if blocked then (d, "model-blocked") else
  let obs := dedupStr (cands.map (fun c => obsOf c.1 c.2))
  match obs with
  | [] => (d, "model-empty")
  | [o] => ({ d with belief := (cands.map (·.1)).eraseDups }, o)
  | _ =>
    let keep := cands.filter (fun c => obsOf c.1 c.2 == seen)
    if keep.isEmpty then ({ d with belief := (cands.map (·.1)).eraseDups }, "model-rejects allowed=" ++ joinWith "|" (obs.map (fun o => o.replace " " ",")))
    else ({ d with belief := (keep.map (·.1)).eraseDups }, seen)

def parseTF (s : Option String) : Option Bool :=
  match s with
  | some "t" => some true
  | some "f" => some false
  | _ => none

def setAns (d : DState) (ws : List String) : DState :=
  match parseTF (kv ws "started") with
  | some b => { d with ans := b }
  | none => d

def stepLine (d : DState) (op seen : String) : DState × String :=
  let ws := splitWords op
  match ws with
  | "init" :: rest =>
    let can := (kv rest "can").getD "1" != "0"
    ({ belief := [init can], root := (kv rest "root").getD "ok" != "bad" }, "ok")
  | "run" :: rest => let d := setAns d rest; applyCall d .run seen
  | "intr" :: rest => let d := setAns d rest; applyCall d .intr seen
  | "cancel" :: rest =>
    let d := setAns d rest
    applyCall d (.cancel d.ans) seen
  | "stop" :: _ => applyCall d .stop seen
  | "hstart" :: rest =>
    match kvNat rest "n" with
    | some n =>
      let wrong := (kv rest "hash").getD "ok" == "wrong"
      let d := { d with cok := (kv rest "confirm").getD "ok" != "fail", hold := (kv rest "hold").getD "0" == "1" }
      applyCall d (.hStart wrong n d.root) seen
    | none => (d, "bad-op")
  | "htx" :: rest => applyCall d (.hTx ((kv rest "proc").getD "ok" != "fail")) seen
  | "heos" :: _ => applyCall d .hEos seen
  | "hconfirm" :: rest => applyCall d (.hConfirm ((kv rest "res").getD "ok" != "fail")) seen
  | "end" :: _ =>
    -- nobody may be parked on a send in any state the model still considers possible
    (d, s!"parked={if d.belief.any anyBlocked then 1 else 0}")
  | _ => (d, "bad-op")

def obsPart (line : String) : String :=
  match line.splitOn " => " with
  | _ :: b :: _ => b
  | _ => ""

def main : IO Unit := do
  let stdin ← IO.getStdin
  let stdout ← IO.getStdout
  let _ ← loopLines stdin ({} : DState) fun s line => do
    if line.startsWith "#" || line.isEmpty then
      stdout.putStrLn line
      return s
    let op := opPart line
    let (s', out) := stepLine s op (obsPart line)
    stdout.putStrLn s!"{op} => {out}"
    return s'
  stdout.flush
