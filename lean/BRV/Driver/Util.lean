/- Shared helpers for the line-protocol model drivers (core only, no Mathlib). -/
namespace BRV.Drv

def splitWords (line : String) : List String :=
  (line.splitOn " ").filter (· ≠ "")

/-- `key=value` lookup among the words after the verb. -/
def kv (ws : List String) (key : String) : Option String :=
  ws.findSome? fun w =>
    if w.startsWith (key ++ "=") then some (w.drop (key.length + 1)).toString else none

def kvNat (ws : List String) (key : String) : Option Nat := (kv ws key).bind String.toNat?
def kvInt (ws : List String) (key : String) : Option Int := (kv ws key).bind String.toInt?

def hexDigit (c : Char) : Option Nat :=
  if '0' ≤ c ∧ c ≤ '9' then some (c.toNat - '0'.toNat)
  else if 'a' ≤ c ∧ c ≤ 'f' then some (c.toNat - 'a'.toNat + 10)
  else if 'A' ≤ c ∧ c ≤ 'F' then some (c.toNat - 'A'.toNat + 10)
  else none

/-- "-" is the empty byte string. -/
def hexToBytes (s : String) : Option (List Nat) :=
  if s == "-" then some [] else
  let rec go : List Char → List Nat → Option (List Nat)
    | [], acc => some acc.reverse
    | [_], _ => none
    | a :: b :: rest, acc =>
      match hexDigit a, hexDigit b with
      | some x, some y => go rest ((16 * x + y) :: acc)
      | _, _ => none
  go s.toList []

def hexChar (n : Nat) : Char :=
  if n < 10 then Char.ofNat (n + '0'.toNat) else Char.ofNat (n - 10 + 'a'.toNat)

def bytesToHex (b : List Nat) : String :=
  if b.isEmpty then "-" else
  String.ofList (b.foldr (fun x acc => hexChar (x / 16 % 16) :: hexChar (x % 16) :: acc) [])

def parseNatList (s : String) : Option (List Nat) :=
  -- "[1,2,3]" or "[]"
  let inner := (s.drop 1).dropEnd 1 |>.toString
  if inner == "" then some [] else
  (inner.splitOn ",").mapM String.toNat?

def joinWith (sep : String) (xs : List String) : String := sep.intercalate xs

/-- insertion sort of strings (canonical order for multiset output). -/
def sortStrings (xs : List String) : List String :=
  xs.foldl (fun acc x =>
    let (lo, hi) := acc.span (fun y => y < x || y == x)
    lo ++ [x] ++ hi) []

/-- read all of stdin line by line, calling `f` on the state. -/
partial def loopLines {σ : Type} (h : IO.FS.Stream) (s : σ) (f : σ → String → IO σ) : IO σ := do
  let line ← h.getLine
  if line.isEmpty then return s
  let l := if line.endsWith "\n" then (line.dropEnd 1).toString else line
  let s' ← f s l
  loopLines h s' f

/-- the op text of a harness line `op => obs` (or the whole line when there is no arrow). -/
def opPart (line : String) : String :=
  match line.splitOn " => " with
  | a :: _ => a
  | [] => line

end BRV.Drv
