/- Line-protocol driver for the request-routing model (correspondence stream `mgr`, C13 / C15).
   Inputs the harness wrote into the op text: `fl=[..]` (per node 1=IsReady 2=IsBusy 4=IsStopped
   8=HasBlock 16=outgoing channel closed, read just before a routing call) and `out=` of a hostile
   op. Everything after ` => ` is predicted: who receives what (`got=`), the error class, the scan
   state (`nodes=`, `off=`), the flags the model expects (`flm=`), the stages (`gt=`) and which
   connections are in sync (`sync=`). The routing itself is `BRV.Mgr.scan` and the request loops of
   Model/Mgr.lean: the definitions the theorems of Props/C13.lean are about. -/
import BRV.Model.Mgr
import BRV.Driver.Util

open BRV BRV.Drv BRV.Mgr

structure DState where
  w : World := {}
  hasTx : Bool := true

def maxNodes : Nat := 8
def tableSize : Nat := 30

def showNatList (l : List Nat) : String := "[" ++ joinWith "," (l.map toString) ++ "]"

def stageChar : Stage → Char
  | .fresh => 'f' | .hs => 'h' | .verified => 'v' | .dead => 'x'

def sortNats (xs : List Nat) : List Nat :=
  xs.foldl (fun acc x => let (lo, hi) := acc.span (· ≤ x); lo ++ [x] ++ hi) []

def msgToken : Msg → String
  | .getheaders => "ghreq"
  | .getdataBlock b => s!"gdb{b}"
  | .getdataTx ts => "gdt" ++ joinWith "." ((sortNats ts).map toString)
  | .tx => "tx"

/-- `got=[idx:token,..]`: peers in index order, the tokens of one peer sorted. -/
def showGot (n : Nat) (got : List (Nat × String)) : String :=
  let items := (List.range n).flatMap fun i =>
    (sortStrings ((got.filter (·.1 == i)).map (·.2))).map fun t => s!"{i}:{t}"
  "[" ++ joinWith "," items ++ "]"

def tail (w : World) (got : List (Nat × String)) : String :=
  let gt := String.ofList (w.nd.map fun n => stageChar n.stage)
  let sync := String.ofList (w.nd.map fun n => if n.alive then '1' else '-')
  s!"got={showGot w.nd.length got} nodes={showNatList w.order} off={w.off} gt={gt} sync={sync}"

def errName : Err → String
  | .nil => "nil" | .notAvail => "notavail" | .noHeader => "noheader" | .other => "other" | .spin => "spin"

def viewOf (fl : List Nat) : View := fun i =>
  let f := fl.getD i 4
  { ready := f % 2 == 1, busy := f / 2 % 2 == 1, stopped := f / 4 % 2 == 1, sendOk := f / 16 % 2 == 0 }

def flagBits (f : Flags) (hb : Bool) : Nat :=
  (if f.ready then 1 else 0) + (if f.busy then 2 else 0) + (if f.stopped then 4 else 0) + (if hb then 8 else 0)

/-- the flags the model expects the harness to have read (bit 16 is an input only). -/
def expectedFlags (w : World) (b : Option Nat) : List Nat :=
  w.nd.map fun n => flagBits n.flags (match b with | some b => n.hasBlock b | none => false)

/-- nodes the harness put into the closing window (bit 16) are gone after the call. -/
def killClosing (w : World) (fl : List Nat) : World :=
  (List.range w.nd.length).foldl (fun w i =>
    if (fl.getD i 0) / 16 % 2 == 1 then w.setNode i { w.node i with stage := .dead } else w) w

def sendsGot (s : List (Nat × Msg)) : List (Nat × String) := s.map fun (i, m) => (i, msgToken m)

def validNode (w : World) (ws : List String) : Option Nat :=
  match kvNat ws "i" with
  | some k => if k < w.nd.length then some k else none
  | none => none

def stepLine (s : DState) (line : String) : DState × String :=
  let ws := splitWords line
  let w := s.w
  let skip : DState × String := (s, "skip " ++ tail w [])
  match ws with
  | "add" :: _ =>
    if w.nd.length ≥ maxNodes then skip else
    let w' := { w with nd := w.nd ++ [{}], order := w.order ++ [w.nd.length] }
    ({ s with w := w' }, "ok " ++ tail w' [])
  | "ping" :: _ => (s, "ok " ++ tail w [])
  | "hs" :: rest =>
    match validNode w rest with
    | some k =>
      if (w.node k).stage != .fresh then skip else
      let w' := w.setNode k { w.node k with stage := .hs }
      ({ s with w := w' }, "ok " ++ tail w' [(k, "ghver")])
    | none => skip
  | "verify" :: rest =>
    match validNode w rest with
    | some k =>
      if (w.node k).stage != .hs then skip else
      if kv rest "ok" == some "1" then
        let w' := w.setNode k { w.node k with stage := .verified }
        ({ s with w := w' }, "ok " ++ tail w' [(k, "ghinit")])
      else
        let w' := w.setNode k { w.node k with stage := .dead }
        ({ s with w := w' }, "ok run=returned " ++ tail w' [])
    | none => skip
  | "announce" :: rest =>
    match validNode w rest with
    | some k =>
      if (w.node k).stage != .verified then skip else
      if kv rest "b" == some "e" then
        let w' := w.setNode k { w.node k with lastHdr := some tipId }
        ({ s with w := w' }, "ok " ++ tail w' [])
      else
        match kvNat rest "b" with
        | some b =>
          if b ≥ tableSize then skip else
          let w' := w.setNode k { w.node k with lastHdr := some b }
          ({ s with w := w' }, "ok " ++ tail w' [])
        | none => skip
    | none => skip
  | "busy" :: rest =>
    match validNode w rest, kvNat rest "b" with
    | some k, some b =>
      if (w.node k).stage == .dead || b ≥ tableSize then skip else
      if (w.node k).req.isSome then (s, "r=busy " ++ tail w []) else
      let w' := w.stamp [k] b
      ({ s with w := w' }, "r=ok " ++ tail w' [(k, s!"gdb{b}")])
    | _, _ => skip
  | "deliver" :: rest =>
    match validNode w rest with
    | some k =>
      if (w.node k).stage == .dead || (w.node k).req.isNone then skip else
      let w' := w.setNode k { w.node k with req := none }
      ({ s with w := w' }, "ok " ++ tail w' [])
    | none => skip
  | verb :: rest =>
    if verb == "stop" || verb == "drop" then
      match validNode w rest with
      | some k =>
        if (w.node k).stage == .dead then skip else
        let w' := w.setNode k { w.node k with stage := .dead }
        ({ s with w := w' }, "ok run=returned " ++ tail w' [])
      | none => skip
    else if verb == "addtx" then
      match kvNat rest "t", (kv rest "from").bind parseNatList with
      | some t, some from_ =>
        if from_.isEmpty || !s.hasTx || from_.any (· ≥ w.nd.length) then skip else
        if w.pend.any (·.t == t) then (s, "dup " ++ tail w []) else
        let w' := { w with pend := w.pend ++ [{ t := t, from_ := from_.tail.eraseDups }] }
        ({ s with w := w' }, "ok " ++ tail w' [])
      | _, _ => skip
    else if verb == "hostile" then
      match validNode w rest with
      | some k =>
        if (w.node k).stage == .dead then skip else
        match kv rest "out" with
        | some "alive" => (s, "out=alive " ++ tail w [])
        | some o =>
          let w' := w.setNode k { w.node k with stage := .dead }
          ({ s with w := w' }, s!"out={o} run=returned " ++ tail w' [])
        | none => skip
      | none => skip
    else if verb == "reqheaders" || verb == "reqtxs" || verb == "reqblock" || verb == "sendtx" then
      let b? := kvNat rest "b"
      if verb == "reqblock" && (match b? with | some b => b ≥ tableSize | none => true) then skip else
      match (kv rest "fl").bind parseNatList with
      | none => (s, "bad-op")
      | some fl =>
        let view := viewOf fl
        let bq : Option Nat := if verb == "reqblock" then b? else none
        let flm := showNatList (expectedFlags w bq)
        if verb == "reqheaders" then
          let r := reqHeadersLoop view true (w.order.length + 2) w.order w.off
          let w' := killClosing { w with order := r.nodes, off := r.off } fl
          ({ s with w := w' }, s!"err={errName r.err} flm={flm} " ++ tail w' (sendsGot r.sends))
        else if verb == "reqtxs" then
          let pend := w.pend.map fun e => { e with ripe := true }
          let rt := reqTxs view s.hasTx (w.order.length + 2) w.order w.off pend
          let w' := killClosing { w with order := rt.r.nodes, off := rt.r.off, pend := rt.pend } fl
          ({ s with w := w' }, s!"err={errName rt.r.err} flm={flm} " ++ tail w' (sendsGot rt.r.sends))
        else if verb == "reqblock" then
          let b := b?.getD 0
          let has : HasData := fun i => (fl.getD i 0) / 8 % 2 == 1
          let r := reqBlock view has b (heightOf b) w.order w.off
          let w1 := ({ w with order := r.nodes, off := r.off }).stamp r.tried b
          let w' := killClosing w1 fl
          let sel := match r.sends with
            | (i, _) :: _ => toString i
            | [] => "-"
          ({ s with w := w' }, s!"sel={sel} err={errName r.err} flm={flm} " ++ tail w' (sendsGot r.sends))
        else
          let sends := sendTx view w.order
          let w' := killClosing w fl
          ({ s with w := w' }, s!"err=nil flm={flm} " ++ tail w' (sendsGot sends))
    else (s, "bad-op")
  | [] => (s, "bad-op")

def initLine (ws : List String) : DState × String :=
  let k := min ((kvNat ws "nodes").getD 0) maxNodes
  let hasTx := kv ws "tx" != some "0"
  let w : World := { nd := List.replicate k {}, order := List.range k }
  ({ w := w, hasTx := hasTx }, s!"init nodes={k} tx={if hasTx then 1 else 0} => ok " ++ tail w [])

def main : IO Unit := do
  let stdin ← IO.getStdin
  let stdout ← IO.getStdout
  let _ ← loopLines stdin (none : Option DState) fun s line => do
    if line.startsWith "#" || line.isEmpty then
      stdout.putStrLn line
      return s
    let op := opPart line
    let ws := splitWords op
    if ws.head? == some "init" then
      let (s', out) := initLine ws
      stdout.putStrLn out
      return some s'
    match s with
    | none =>
      stdout.putStrLn s!"{op} => bad-op"
      return none
    | some st =>
      let (s', out) := stepLine st op
      stdout.putStrLn s!"{op} => {out}"
      return some s'
  stdout.flush
