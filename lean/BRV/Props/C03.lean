/-
C03 — Only the BSV chain is followed: foreign-chain headers and peers are refused.

Decision logic stated outright over the model of `ProcessHeader` / `VerifyHeader` and over the
split table EXTRACTED FROM THE SOURCE (`Facts.splits`, `Facts.requiredSplit`, regenerated on every
run): the theorems are re-checked against what /repo/headers/splits.go says now. The node-side leg
(a peer is verified only if `VerifyHeader` accepts the first header of its reply) is in C13's model.
-/
import BRV.Proofs.RepoBasics

namespace BRV.Repo

/-- **C03 (no other header at the required height).** With split protection on, whatever the state
    of the repository, a header that passes the checks at the required split's height — on any
    branch: the height is the one found for its parent plus one — is the required (BSV) header. -/
theorem C03_required_height (r : Repo) (h : Hdr) (ok : Bool) (pb : Nat) (ph : Int) (lst : HData) (rq : Split)
    (hp : precheck r h ok = .inr (pb, ph, lst)) (hs : r.disableSplit = false)
    (hrq : r.cfg.required = some rq) (hh : ph + 1 = rq.height) : h.id = rq.after := by
  have hpass := precheck_inr r h ok pb ph lst hp
  rcases hpass.required with hd | hv
  · rw [hs] at hd; cases hd
  · exact ((requiredViolated_false_iff r (ph + 1) h.id).mp hv rq hrq hh).symm

/-- so an accepting `ProcessHeader` at that height adds only the required header. -/
theorem C03_only_bsv_added (r : Repo) (h : Hdr) (ok : Bool) (rq : Split) (pb : Nat) (ph : Int)
    (hs : r.disableSplit = false) (hrq : r.cfg.required = some rq)
    (hparent : r.branchesFind h.prev = some (pb, ph)) (hh : ph + 1 = rq.height) (hne : h.id ≠ rq.after) :
    (processHeader r h ok).1 = r ∧ (processHeader r h ok).2.verdict ≠ .ok := by
  cases hpc : precheck r h ok with
  | inl v =>
    rw [processHeader_of_inl r h ok v hpc]
    exact ⟨rfl, precheck_inl_ne_ok r h ok v hpc⟩
  | inr x =>
    obtain ⟨pb', ph', lst⟩ := x
    have hpass := precheck_inr r h ok pb' ph' lst hpc
    have : (pb', ph') = (pb, ph) := by
      have := hpass.parent; rw [hparent] at this; simp only [Option.some.injEq] at this; exact this.symm
    simp only [Prod.mk.injEq] at this
    obtain ⟨rfl, rfl⟩ := this
    exact absurd (C03_required_height r h ok pb' ph' lst rq hpc hs hrq hh) hne
/-- **C03 (foreign split headers are refused wherever they are offered), parent held.** A header
    whose id is the after-hash of a split in the table, offered at that split's height, is refused
    as wrong-chain (when bits/work are acceptable and it is not already held). -/
theorem C03_foreign_refused_at_height (r : Repo) (h : Hdr) (ok : Bool) (pb : Nat) (ph : Int)
    (hb : Work.malformedBits h.bits = false) (hw : r.disableDifficulty = true ∨ ok = true)
    (hs : r.disableSplit = false)
    (hparent : r.branchesFind h.prev = some (pb, ph)) (hfresh : r.branchesFind h.id = none)
    (hsplit : ∃ s ∈ r.cfg.splits, s.height = ph + 1 ∧ s.after = h.id) :
    processHeader r h ok = (r, { verdict := .wrongChain, events := [] }) := by
  apply processHeader_of_inl
  unfold precheck
  have hw' : (!r.disableDifficulty && !ok) = false := by
    rcases hw with hw | hw <;> simp [hw]
  have hany : r.cfg.splits.any (fun s => s.height == ph + 1 && s.after == h.id) = true := by
    obtain ⟨s, hs1, hs2, hs3⟩ := hsplit
    exact List.any_eq_true.mpr ⟨s, hs1, by simp [hs2, hs3]⟩
  simp only [hb, Bool.false_eq_true, ↓reduceIte, hw', hparent, hfresh, Option.isSome_none, hs, Bool.not_false,
    Bool.true_and, hany]

/-- **C03 (foreign split headers are refused wherever they are offered), parent not held.** -/
theorem C03_foreign_refused_unknown_parent (r : Repo) (h : Hdr) (ok : Bool)
    (hb : Work.malformedBits h.bits = false) (hw : r.disableDifficulty = true ∨ ok = true)
    (hparent : r.branchesFind h.prev = none) (hsplit : ∃ s ∈ r.cfg.splits, s.after = h.id) :
    processHeader r h ok = (r, { verdict := .wrongChain, events := [] }) := by
  apply processHeader_of_inl
  unfold precheck
  have hw' : (!r.disableDifficulty && !ok) = false := by
    rcases hw with hw | hw <;> simp [hw]
  have hany : r.cfg.splits.any (fun s => s.after == h.id) = true := by
    obtain ⟨s, hs1, hs3⟩ := hsplit
    exact List.any_eq_true.mpr ⟨s, hs1, by simp [hs3]⟩
  simp only [hb, Bool.false_eq_true, ↓reduceIte, hw', hparent, hany]

/-- **C03 (the BSV split header itself passes the chain rules).** At the required height the
    required header violates neither split rule of the extracted main-net table. -/
theorem C03_bsv_passes_split_rules (maxDepth : Int) (inv : List Nat) :
    let cfg := mainCfg maxDepth inv
    ∀ rq, cfg.required = some rq →
      cfg.splits.any (fun s => s.height == rq.height && s.after == rq.after) = false ∧
      (∀ r : Repo, r.cfg = cfg → requiredViolated r rq.height rq.after = false) := by
  intro cfg rq hrq
  have hcfg : cfg.required = (Facts.requiredSplit.map mkSplit).head? := rfl
  have hsp : cfg.splits = sortSplits (Facts.splits.map mkSplit) := rfl
  rw [hcfg] at hrq
  have hrq' : rq = { name := "SplitNameBSV", before := 900003, after := 900005, height := 556767 } := by
    have : (Facts.requiredSplit.map mkSplit).head? = some { name := "SplitNameBSV", before := 900003, after := 900005, height := 556767 } := by decide
    rw [this] at hrq; simp only [Option.some.injEq] at hrq; exact hrq.symm
  subst hrq'
  refine ⟨by rw [hsp]; decide, ?_⟩
  intro r hr
  unfold requiredViolated
  rw [hr]
  show (match (Facts.requiredSplit.map mkSplit).head? with
        | some rq => (556767 : Int) == rq.height && rq.after != 900005
        | none => false) = false
  decide

/-- **C03 (VerifyHeader accepts only the BSV split header).** -/
theorem C03_verify_only_bsv (r : Repo) (h : Hdr) (rq : Split) (hrq : r.cfg.required = some rq) :
    verifyHeader r h = .ok ↔ h.id = rq.after := by
  have hreq : isRequired r h.id = (rq.after == h.id) := by unfold isRequired; rw [hrq]
  unfold verifyHeader
  rw [hreq]
  constructor
  · intro hv
    by_cases hc : (rq.after == h.id) = true
    · simp only [beq_iff_eq] at hc; exact hc.symm
    · simp only [hc, Bool.false_eq_true, ↓reduceIte] at hv
      split at hv
      · cases hv
      · split at hv <;> cases hv
  · intro he
    simp [he]

/-- and without a required split (test net) nothing verifies a peer. -/
theorem C03_verify_none (r : Repo) (h : Hdr) (hrq : r.cfg.required = none) : verifyHeader r h ≠ .ok := by
  have hreq : isRequired r h.id = false := by unfold isRequired; rw [hrq]
  unfold verifyHeader
  rw [hreq]
  simp only [Bool.false_eq_true, ↓reduceIte]
  split
  · intro hc; cases hc
  · split <;> (intro hc; cases hc)

/-- foreign split headers are named wrong-chain by `VerifyHeader` (they are not the required one). -/
theorem C03_verify_foreign (r : Repo) (h : Hdr) (rq : Split) (hrq : r.cfg.required = some rq)
    (hne : h.id ≠ rq.after) (hsplit : ∃ s ∈ r.cfg.splits, s.after = h.id) : verifyHeader r h = .wrongChain := by
  have hreq : isRequired r h.id = false := by
    unfold isRequired; rw [hrq]; simp only [beq_eq_false_iff_ne, ne_eq]; exact fun hc => hne hc.symm
  unfold verifyHeader
  rw [hreq]
  have hany : r.cfg.splits.any (fun s => s.after == h.id) = true := by
    obtain ⟨s, hs1, hs3⟩ := hsplit
    exact List.any_eq_true.mpr ⟨s, hs1, by simp [hs3]⟩
  simp only [Bool.false_eq_true, ↓reduceIte, hany]

/-! ### the extracted tables -/

/-- The table in the source: the required split is BSV at 556767 — the same height as the
    difficulty-algorithm activation —, it shares its fork point with the BCH entry and differs from
    both foreign after-hashes; BTC split at 478559. -/
theorem C03_split_table :
    Facts.requiredSplit.map (fun e => (e.1, e.2.2.2)) = [("SplitNameBSV", 556767)] ∧
    Facts.splits.map (fun e => (e.1, e.2.2.2)) = [("SplitNameBTC", 478559), ("SplitNameBCH", 556767)] ∧
    Facts.daaHeight = 556767 ∧
    (mainCfg 144 []).splits.map (fun s => (s.before, s.after, s.height)) = [(900003, 900004, 556767), (900001, 900002, 478559)] ∧
    (mainCfg 144 []).required.map (fun s => (s.before, s.after, s.height)) = some (900003, 900005, 556767) := by
  decide

/-! ### non-vacuity -/

example : verifyHeader { cfg := mainCfg 144 [] } { id := 900005, prev := 900003, bits := 0x18021fdb, time := 1542305817 } = .ok := by decide
example : verifyHeader { cfg := mainCfg 144 [] } { id := 900004, prev := 900003, bits := 0x18021fdb, time := 1542304936 } = .wrongChain := by decide
example : verifyHeader { cfg := mainCfg 144 [] } { id := 77, prev := 900003, bits := 0x18021fdb, time := 1542304936 } = .unknown := by decide

/-- **C03 (LoadBranch rebuilds the hash→height map from the saved prune offset), tie to the source.** Regenerated
    from /repo on every run: the map starts at `parentHeight + offset` (the model's `loadBranch` does the same), not at
    `parentHeight + 1` — the height of a header offered on a loaded tip — which keys the split checks at 556767 — comes from this map. -/
theorem C03_loadBranch_height_start_in_source :
    Facts.loadBranchHeightStart = "result.parentHeight + result.offset" := by decide

end BRV.Repo
