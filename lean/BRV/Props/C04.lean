/-
C04 — Block confirmations are issued only for fully verified blocks, with valid proofs.

Property theorems only (helper lemmas: Proofs/MerkleRoot, MerkleBlock, MerkleIssue, MerkleInj,
MerkleProofs). Every theorem is about the executable models `BRV.Merkle` of
/repo/block_downloader.go `HandleBlock`/`handleBlock` (Model/BlockHandle.lean) and of the dependency
`merkle_proof` (`MerkleTree`, `MerkleProof`; Model/Merkle.lean), which the `merkle` correspondence
harness ties to the real code on every run.

Hashes are IDEAL: terms of the free algebra `leaf n | node l r` (Spec/Merkle.lean). Quantifiers:
every list of received txids (`List H`), every announced count, every header (its merkle-root field
and "everything else"), every scripted processor (result per ProcessTx call, errors of
ProcessCoinbaseTx / the k-th ConfirmTx / AppendBlockTxIDs) and every cancellation point.
"Issued" calls = ProcessCoinbaseTx, ConfirmTx, AppendBlockTxIDs (`Call.isIssue`).
-/
import BRV.Proofs.MerkleIssue
import BRV.Proofs.MerkleInj
import BRV.Proofs.MerkleProofs

namespace BRV.Merkle


/-! ## 0. the shape of the source the model follows (facts extracted from /repo on every run) -/

/-- **C04 (statement order in the source).** In `handleBlock` the merkle/processor/store calls appear
    in the order the model executes them: per transaction ProcessTx, AddMerkleProof, AddHash; then
    FinalizeMerkleProofs, the Verify loop, and only then ProcessCoinbaseTx, ConfirmTx, AppendBlockTxIDs;
    the two cancellation tests (`wasCancelled`) sit after the transaction loop and between the Verify loop and the
    commit calls, the two points the model reads the cancel flag at; and the tree is created with `NewMerkleTree(true)`. (Regenerated from the source by go/cmd/extract;
    a reordering makes this theorem fail.) -/
theorem C04_source_call_order :
    Facts.callOrder_handleBlock = ["ProcessTx", "AddMerkleProof", "AddHash", "wasCancelled", "FinalizeMerkleProofs",
      "Verify", "wasCancelled", "ProcessCoinbaseTx", "ConfirmTx", "AppendBlockTxIDs"] ∧ Facts.merkleTreePrune = 1 := by
  decide

/-! ## 1. the streaming tree computes the textbook root -/

/-- **C04 (root).** For every list of transactions, whichever of them get a proof attached, the
    streaming `MerkleTree` (AddMerkleProof / AddHash per transaction, then FinalizeMerkleProofs) never
    hits an out-of-range index and returns exactly the textbook merkle root of the list (the zero
    hash, `none`, for no transactions). -/
theorem C04_root_correct (txs : List (H × Bool)) :
    ∃ t ps, feedTxs (newTree true) txs = some t ∧
      t.finalize = some (merkleRoot (txs.map (·.1)), ps) := by
  obtain ⟨t, ht, hok⟩ := feedTxs_ok (newTree true) [] txs treeOK_new
  obtain ⟨ps, hps, _⟩ := finalize_ok t _ hok
  exact ⟨t, ps, ht, by simpa using hps⟩

example : ∃ t ps, feedTxs (newTree true) [(.leaf 7, true), (.leaf 8, false), (.leaf 9, true)] = some t ∧
    t.finalize = some (some (.node (.node (.leaf 7) (.leaf 8)) (.node (.leaf 9) (.leaf 9))), ps) := by
  obtain ⟨t, ps, h1, h2⟩ := C04_root_correct [(.leaf 7, true), (.leaf 8, false), (.leaf 9, true)]
  refine ⟨t, ps, h1, ?_⟩
  rw [h2]; simp [merkleRoot, pairUp]

/-! ## 2. nothing is issued unless the block is fully verified -/

/-- **C04 (guard).** If `HandleBlock` makes a ProcessCoinbaseTx, ConfirmTx or AppendBlockTxIDs call at
    all, then: the header is the requested one, the announced count equals the number of transactions
    received, the textbook merkle root of the received transactions (= the streaming root, by
    `C04_root_correct`) equals the header's merkle root, no ProcessTx call failed and no cancellation
    happened before or during the download. -/
theorem C04_confirm_guarded (env : Env) (header : Header) (txCount : Nat) (recv : List H) (c : Call)
    (hc : c ∈ (handleBlock env header txCount recv).calls) (hi : c.isIssue = true) :
    header = env.requested ∧ recv.length = txCount ∧ merkleRoot recv = header.root ∧
    env.preCancelled = false ∧ env.cancelAfterLast = false ∧
    (∀ k, k < recv.length → env.proc k ≠ .error ∧ env.cancelDuring ≠ some k) := by
  unfold handleBlock at hc
  by_cases hpre : env.preCancelled = true
  · simp [hpre] at hc
  · by_cases hreq : env.requested = header
    · simp only [hpre, Bool.false_eq_true, ↓reduceIte, hreq, ne_eq, not_true_eq_false] at hc
      rcases inner_cases env header txCount recv with hs | ⟨hg, _⟩
      · have := hs.1 c hc
        rw [this] at hi; cases hi
      · exact ⟨hreq.symm, hg.count, hg.root, by simpa using hpre, hg.noLateCancel,
          fun k hk => ⟨hg.noProcErr k hk, hg.noCancel k hk⟩⟩
    · simp [hpre, hreq] at hc

/-- **C04 (every failure class is silent).** A header other than the requested one, a count that
    differs from what was received (stream cut short, transaction dropped or added), a merkle root
    that differs, a ProcessTx error at any call, a cancellation before the download, during any
    transaction or before the channel is closed: in each case no ProcessCoinbaseTx, no ConfirmTx and
    no AppendBlockTxIDs call is made, and `Complete` does not receive a success. -/
theorem C04_any_failure_silent (env : Env) (header : Header) (txCount : Nat) (recv : List H)
    (h : env.preCancelled = true ∨ header ≠ env.requested ∨ recv.length ≠ txCount ∨
      merkleRoot recv ≠ header.root ∨ (∃ k, k < recv.length ∧ env.proc k = .error) ∨
      (∃ k, k < recv.length ∧ env.cancelDuring = some k) ∨ env.cancelAfterLast = true) :
    (∀ c ∈ (handleBlock env header txCount recv).calls, c.isIssue = false) ∧
    (handleBlock env header txCount recv).complete ≠ .ok := by
  have hnot : ¬ (header = env.requested ∧ env.preCancelled = false ∧ AllGood env header txCount recv) := by
    rintro ⟨h1, h2, hg⟩
    rcases h with h | h | h | h | ⟨k, hk, h⟩ | ⟨k, hk, h⟩ | h
    · rw [h2] at h; cases h
    · exact h h1
    · exact h hg.count
    · exact h hg.root
    · exact hg.noProcErr k hk h
    · exact hg.noCancel k hk h
    · rw [hg.noLateCancel] at h; cases h
  unfold handleBlock
  by_cases hpre : env.preCancelled = true
  · simp [hpre]
  · by_cases hreq : env.requested = header
    · simp only [hpre, Bool.false_eq_true, ↓reduceIte, hreq, ne_eq, not_true_eq_false]
      rcases inner_cases env header txCount recv with hs | ⟨hg, _⟩
      · refine ⟨hs.1, ?_⟩
        rcases hs.2.1 with h' | h' | h' | h' <;> simp [h']
      · exact absurd ⟨hreq.symm, by simpa using hpre, hg⟩ hnot
    · simp [hpre, hreq]

/-- a wrong header: nothing at all is called, `Complete` gets ErrWrongBlock, the node gets nil. -/
theorem C04_wrong_header (env : Env) (header : Header) (txCount : Nat) (recv : List H)
    (hpre : env.preCancelled = false) (h : header ≠ env.requested) :
    (handleBlock env header txCount recv).calls = [] ∧
    (handleBlock env header txCount recv).complete = .wrongBlock ∧
    (handleBlock env header txCount recv).ret = .ok := by
  have h' : env.requested ≠ header := fun hc => h hc.symm
  simp [handleBlock, hpre, h']

/-! ## 3. what the root commits to: altered / reordered / dropped / added transactions -/

/-- **C04 (altered or reordered).** Two blocks of the same length with the same root are the same
    block; so a block in which a transaction was altered, or transactions were reordered, never has
    the header's root. -/
theorem C04_same_length_same_root (l1 l2 : List H) (hlen : l1.length = l2.length)
    (h : merkleRoot l1 = merkleRoot l2) : l1 = l2 := merkleRoot_inj_length l1 l2 hlen h

/-- **C04 (the duplicated-tail exception).** A level of odd length pairs its last node with itself,
    so repeating the last transaction of an odd-length block (announcing one more) keeps the root:
    `[a,b,c]` and `[a,b,c,c]`. This is the classical merkle ambiguity; the root check cannot tell
    the two apart. -/
theorem C04_dup_tail_exception (l : List H) (c : H) (hne : l ≠ []) (heven : l.length % 2 = 0) :
    merkleRoot (l ++ [c]) = merkleRoot (l ++ [c, c]) := merkleRoot_dup_tail l c hne heven

example (a b c : H) : merkleRoot [a, b, c] = merkleRoot [a, b, c, c] :=
  C04_dup_tail_exception [a, b] c (by simp) (by simp)

/-- **C04 (that exception is the only one).** Two duplicate-free lists of transaction ids with the
    same root are equal — whatever their lengths. Hence a received block that passes the root check
    against the header of a (duplicate-free) true block is that block, or repeats a txid. -/
theorem C04_nodup_same_root (ids1 ids2 : List Nat) (h1 : ids1.Nodup) (h2 : ids2.Nodup)
    (h : merkleRoot (ids1.map H.leaf) = merkleRoot (ids2.map H.leaf)) : ids1 = ids2 :=
  merkleRoot_inj_nodup ids1 ids2 h1 h2 h

/-- **C04 (altered / reordered / dropped / added ⇒ silent).** If the header commits to the
    duplicate-free block `trueIds` and what is received differs from it without repeating a txid —
    a transaction altered, dropped, added or moved, with any announced count — nothing is issued. -/
theorem C04_corrupted_block_silent (env : Env) (header : Header) (txCount : Nat)
    (trueIds recvIds : List Nat) (ht : trueIds.Nodup) (hr : recvIds.Nodup) (hne : recvIds ≠ trueIds)
    (hroot : header.root = merkleRoot (trueIds.map H.leaf)) :
    ∀ c ∈ (handleBlock env header txCount (recvIds.map H.leaf)).calls, c.isIssue = false := by
  apply (C04_any_failure_silent env header txCount _ _).1
  right; right; right; left
  intro hc
  exact hne (C04_nodup_same_root _ _ hr ht (by rw [hc, hroot]))

/-! ## 4. confirmations: exactly the relevant transactions, in block order, with verifying proofs -/

/-- **C04 (every confirmation carries a verifying proof for exactly that txid).** Whatever the outcome
    (success, or an error of a later ConfirmTx / of AppendBlockTxIDs): every ConfirmTx call that is
    made names a transaction the processor marked relevant, at the block's height, with a proof whose
    txid is that transaction, whose index is that transaction's position in the block, that carries
    the requested header, and whose `CalculateRoot` succeeds and yields the header's merkle root,
    which is the textbook root of the received block (`Verify() = nil`). -/
theorem C04_proofs_verify (env : Env) (header : Header) (txCount : Nat) (recv : List H)
    (txid : H) (height : Int) (p : Proof) (hdr bh : Header)
    (hc : Call.confirm txid height p hdr bh ∈ (handleBlock env header txCount recv).calls) :
    p.txid = txid ∧ height = env.height ∧ hdr = header ∧ hdr = env.requested ∧ bh = env.requested ∧
    p.verify hdr.root = .ok ∧ p.calculateRoot = merkleRoot recv ∧ merkleRoot recv = hdr.root ∧
    ∃ k, p.index = some k ∧ recv[k]? = some txid ∧ env.proc k = .relevant := by
  have hg := C04_confirm_guarded env header txCount recv _ hc rfl
  unfold handleBlock at hc
  have hpre : env.preCancelled = false := hg.2.2.2.1
  have hreq : env.requested = header := hg.1.symm
  simp only [hpre, Bool.false_eq_true, ↓reduceIte, hreq, ne_eq, not_true_eq_false] at hc
  rcases inner_cases env header txCount recv with hs | ⟨hgood, ps, hkeys, hver, _, heq⟩
  · have := hs.1 _ hc; cases this
  · rw [heq] at hc
    have hids := keys_txids ps _ hkeys
    obtain ⟨⟨n, tail, hcalls, htail⟩, _⟩ :=
      issuePhase_spec env header (recv.map Call.processTx) recv.head? ps _ hids
    rw [hcalls] at hc
    simp only [List.mem_append, List.mem_map, List.mem_singleton, reduceCtorEq, and_false,
      exists_false, false_or] at hc
    have hmem : Call.confirm txid height p hdr bh ∈ ps.map (fun p => mkConfirm env header p.txid p) := by
      rcases hc with hc | hc
      · exact List.mem_of_mem_take hc
      · rcases htail with ht | ⟨ht, _⟩ <;> (rw [ht] at hc; simp at hc)
    obtain ⟨p', hp', hpe⟩ := List.mem_map.mp hmem
    simp only [mkConfirm, Call.confirm.injEq] at hpe
    obtain ⟨h1, h2, h3, h4, h5⟩ := hpe
    subst h3
    have hk : p'.key ∈ (relPos env 0 recv).map keyOf := by
      rw [← hkeys]; exact List.mem_map_of_mem hp'
    obtain ⟨q, hq, hqe⟩ := List.mem_map.mp hk
    simp only [keyOf, Proof.key, Prod.mk.injEq] at hqe
    obtain ⟨hr1, hr2⟩ := relPos_mem env recv q hq
    have hv := hver p' hp'
    have hcalc : p'.calculateRoot = header.root := by
      unfold Proof.verify at hv
      split at hv
      · cases hv
      · rename_i r hr
        split at hv
        · rename_i hh; rw [hr, hh]
        · cases hv
    refine ⟨h1, h2.symm, h4.symm, by rw [← h4, hreq], h5.symm, by rw [← h4]; exact hv, ?_, ?_,
      q.2, hqe.2.symm, ?_, hr2⟩
    · rw [hcalc, hgood.root]
    · rw [← h4]; exact hgood.root
    · rw [hr1, ← h1, hqe.1]

/-- **C04 (success = exactly the relevant transactions, once each, in block order).** When
    `HandleBlock` reports success the complete list of external calls is: ProcessTx for every received
    transaction in order, ProcessCoinbaseTx for the first one with the requested block hash, one
    ConfirmTx per relevant transaction in block order (proofs `ps`, whose (txid, index) list is the
    list of relevant (txid, position) pairs), AppendBlockTxIDs with exactly those txids. -/
theorem C04_confirm_exact (env : Env) (header : Header) (txCount : Nat) (recv : List H)
    (hok : (handleBlock env header txCount recv).ret = .ok) (hhdr : header = env.requested) :
    ∃ ps : List Proof,
      ps.map (fun p => (p.txid, p.index)) = (relPos env 0 recv).map (fun q => (q.1, some q.2)) ∧
      (∀ p ∈ ps, p.verify header.root = .ok) ∧
      (handleBlock env header txCount recv).calls =
        recv.map Call.processTx ++ [Call.processCoinbase env.requested recv.head?] ++
        ps.map (fun p => Call.confirm p.txid env.height p header env.requested) ++
        [Call.appendTxIDs env.requested ((relPos env 0 recv).map (·.1))] := by
  unfold handleBlock at hok ⊢
  by_cases hpre : env.preCancelled = true
  · simp [hpre] at hok
  · have hreq : env.requested = header := hhdr.symm
    simp only [hpre, Bool.false_eq_true, ↓reduceIte, hreq, ne_eq, not_true_eq_false] at hok ⊢
    rcases inner_cases env header txCount recv with hs | ⟨_, ps, hkeys, hver, _, heq⟩
    · rcases hs.2.1 with h' | h' | h' | h' <;> (rw [h'] at hok; cases hok)
    · rw [heq] at hok ⊢
      have hids := keys_txids ps _ hkeys
      obtain ⟨_, h2, _⟩ := issuePhase_spec env header (recv.map Call.processTx) recv.head? ps _ hids
      refine ⟨ps, hkeys, hver, ?_⟩
      have h2' := h2 hok
      simp only [mkConfirm, hreq] at h2' ⊢
      exact h2'

/-- **C04 (a store error comes after the confirmations).** If AppendBlockTxIDs fails, the block had
    been fully verified and every relevant transaction had already been confirmed (with verifying
    proofs, `C04_proofs_verify`); the error is reported. -/
theorem C04_store_error_after_confirms (env : Env) (header : Header) (txCount : Nat) (recv : List H)
    (h : (handleBlock env header txCount recv).ret = .storeErr) :
    ∃ ps : List Proof,
      ps.map (fun p => (p.txid, p.index)) = (relPos env 0 recv).map (fun q => (q.1, some q.2)) ∧
      (handleBlock env header txCount recv).calls =
        recv.map Call.processTx ++ [Call.processCoinbase env.requested recv.head?] ++
        ps.map (fun p => Call.confirm p.txid env.height p header env.requested) ++
        [Call.appendTxIDs env.requested ((relPos env 0 recv).map (·.1))] := by
  unfold handleBlock at h ⊢
  by_cases hpre : env.preCancelled = true
  · simp [hpre] at h
  · by_cases hreq : env.requested = header
    · simp only [hpre, Bool.false_eq_true, ↓reduceIte, hreq, ne_eq, not_true_eq_false] at h ⊢
      rcases inner_cases env header txCount recv with hs | ⟨hgood, ps, hkeys, _, _, heq⟩
      · -- a silent outcome is never a store error: AppendBlockTxIDs was not called
        rcases hs.2.1 with h' | h' | h' | h' <;> (rw [h'] at h; cases h)
      · rw [heq] at h ⊢
        have hids := keys_txids ps _ hkeys
        obtain ⟨_, _, h3, _⟩ := issuePhase_spec env header (recv.map Call.processTx) recv.head? ps _ hids
        refine ⟨ps, hkeys, ?_⟩
        have h3' := h3 h
        simp only [mkConfirm, hreq] at h3' ⊢
        exact h3'
    · simp [hpre, hreq] at h

/-! ## 5. duplicate-free blocks: every proof the tree builds recomputes the root, the guard never
       rejects an honest block; and what happens when a txid is repeated -/

/-- **C04 (proofs of a duplicate-free block).** For every duplicate-free list of transaction ids and
    every choice of the transactions that get a proof: each proof `FinalizeMerkleProofs` returns has
    an index and `CalculateRoot` succeeds on it and yields the textbook merkle root of the block.
    `Nodup` is needed because `processProofsLayer` matches a proof to a pair by the VALUE of its
    running root and `CalculateRoot` refuses a right-hand node equal to its sibling — see
    `C04_repeated_tx_bad_proof` for what happens without it. -/
theorem C04_nodup_proofs_recompute (txs : List (Nat × Bool)) (hnd : (txs.map (·.1)).Nodup) :
    ∃ t ps, feedTxs (newTree true) (txs.map fun q => (H.leaf q.1, q.2)) = some t ∧
      t.finalize = some (merkleRoot ((txs.map (·.1)).map H.leaf), ps) ∧
      ∀ p ∈ ps, p.index ≠ none ∧ p.calculateRoot = merkleRoot ((txs.map (·.1)).map H.leaf) := by
  obtain ⟨t, ht, hok, hpg⟩ := feedTxs_pg (newTree true) [] txs (by simpa using hnd)
    (by simpa using treeOK_new) (by intro mp hmp; cases hmp)
  simp only [List.nil_append] at hok hpg
  obtain ⟨ps, hps, hkeys⟩ := finalize_ok t _ hok
  refine ⟨t, ps, ht, hps, ?_⟩
  intro p hp
  by_cases hne : txs.map (·.1) = []
  · rcases hkeys with hk | ⟨_, hk⟩
    · -- no transactions: no proofs
      have : t.proofs = [] := by
        cases txs with
        | nil => simp only [List.map_nil, feedTxs, Option.some.injEq] at ht; rw [← ht]; rfl
        | cons _ _ => simp at hne
      rw [this] at hk; simp at hk; rw [hk] at hp; cases hp
    · rw [hk] at hp; cases hp
  · refine ⟨?_, pg_finalize t _ hnd hne hok hpg _ ps hps p hp⟩
    have hkeys' : ps.map Proof.key = t.proofs.map Proof.key := by
      rcases hkeys with hk | ⟨hk, _⟩
      · exact hk
      · exact absurd (by simpa using hk) hne
    have : p.key ∈ t.proofs.map Proof.key := by rw [← hkeys']; exact List.mem_map_of_mem hp
    obtain ⟨mp, hmp, hmk⟩ := List.mem_map.mp this
    obtain ⟨i, hs, _⟩ := hpg mp hmp
    have : p.index = mp.index := by
      have := congrArg Prod.snd hmk; simpa [Proof.key] using this.symm
    rw [this, hs.index]; simp


/-- **C04 (the proofs are the textbook paths).** For a duplicate-free block, the sibling hashes denoted
    by the proof of every ConfirmTx call (`Path` with the duplicate markers expanded) are exactly the
    textbook merkle path of that transaction's position, `Spec.merklePath`. -/
theorem C04_nodup_textbook_paths (env : Env) (header : Header) (txCount : Nat) (ids : List Nat)
    (hnd : ids.Nodup) (txid : H) (height : Int) (p : Proof) (hdr bh : Header)
    (hc : Call.confirm txid height p hdr bh ∈ (handleBlock env header txCount (ids.map H.leaf)).calls) :
    ∃ k, p.index = some k ∧ p.siblings = merklePath (ids.map H.leaf) k := by
  obtain ⟨htx, _, _, _, _, _, _, _, k, hk, hget, _⟩ :=
    C04_proofs_verify env header txCount _ txid height p hdr bh hc
  refine ⟨k, hk, ?_⟩
  have hg := C04_confirm_guarded env header txCount _ _ hc rfl
  unfold handleBlock at hc
  have hpre : env.preCancelled = false := hg.2.2.2.1
  have hreq : env.requested = header := hg.1.symm
  simp only [hpre, Bool.false_eq_true, ↓reduceIte, hreq, ne_eq, not_true_eq_false] at hc
  rcases inner_cases env header txCount (ids.map H.leaf) with hs | ⟨_, ps, hkeys, _, ⟨st, hrun, hinv, hfin⟩, heq⟩
  · have := hs.1 _ hc; cases this
  · rw [heq] at hc
    have hids := keys_txids ps _ hkeys
    obtain ⟨⟨n, tail, hcalls, htail⟩, _⟩ :=
      issuePhase_spec env header ((ids.map H.leaf).map Call.processTx) (ids.map H.leaf).head? ps _ hids
    rw [hcalls] at hc
    have hmem : Call.confirm txid height p hdr bh ∈ ps.map (fun p => mkConfirm env header p.txid p) := by
      rcases List.mem_append.mp hc with h1 | h4
      · rcases List.mem_append.mp h1 with h2 | h3
        · rcases List.mem_append.mp h2 with ha | hb
          · obtain ⟨_, _, e⟩ := List.mem_map.mp ha; cases e
          · simp at hb
        · exact List.mem_of_mem_take h3
      · rcases htail with ht | ⟨ht, _⟩ <;> (rw [ht] at h4; simp at h4)
    obtain ⟨p', hp', hpe⟩ := List.mem_map.mp hmem
    simp only [mkConfirm, Call.confirm.injEq] at hpe
    obtain ⟨_, _, h3, _, _⟩ := hpe
    subst h3
    have hne : ids ≠ [] := by
      intro hc'; subst hc'; simp at hget
    have hpg := txLoop_pg env ids {} st [] [] (by simpa using hnd) (by simpa using loopInv_init)
      (by intro mp hmp; cases hmp) hrun
    simp only [List.nil_append] at hpg
    obtain ⟨i, hs, hr⟩ := pg_finalize_sound st.tree ids hnd hne hinv.tree hpg _ ps hfin p' hp'
    have hik : i = k := by
      have := hs.index; rw [hk] at this; exact (Option.some.inj this).symm
    subst hik
    cases hroot : merkleRoot (ids.map H.leaf) with
    | none => exact absurd hroot (merkleRoot_ne_none _ (by simpa using hne))
    | some r =>
      rw [hroot] at hr
      exact sound_siblings p' i ids r hs (Option.some.inj hr) hroot (by rw [hget, htx])

/-- **C04 (a repeated txid gives a proof that does not verify).** The block `[0,1,2,2]` has the root
    of `[0,1,2]` (duplicated tail). The tree gives the second copy of tx 2 the index 3 and the same
    siblings as the first copy; `CalculateRoot` refuses it (`ErrBadIndex`: "Right hash can't be
    duplicate"). The repaired `handleBlock` verifies every proof before anything is issued, so such a
    block is refused when the repeated copy is relevant (corpus/C04/merkle-dup-tail.ops); when no
    repeated copy is relevant the block is accepted — equal root, the classical ambiguity — and all
    confirmations still carry verifying proofs (`C04_proofs_verify` has no `Nodup` hypothesis). -/
theorem C04_repeated_tx_bad_proof :
    ∃ t ps p, feedTxs (newTree true) [(.leaf 0, false), (.leaf 1, false), (.leaf 2, true), (.leaf 2, true)] = some t ∧
      t.finalize = some (merkleRoot [.leaf 0, .leaf 1, .leaf 2], ps) ∧ ps.length = 2 ∧
      ps[0]? = some { index := some 2, txid := .leaf 2, path := [.leaf 2, .node (.leaf 0) (.leaf 1)], dups := [],
                      root := .node (.node (.leaf 0) (.leaf 1)) (.node (.leaf 2) (.leaf 2)), depth := 3 } ∧
      ps[1]? = some p ∧ p.index = some 3 ∧ p.txid = .leaf 2 ∧ p.calculateRoot = none := by
  have hroot : merkleRoot [.leaf 0, .leaf 1, .leaf 2] =
      some (.node (.node (.leaf 0) (.leaf 1)) (.node (.leaf 2) (.leaf 2))) := by
    simp [merkleRoot, pairUp]
  have hrun : (feedTxs (newTree true) [(.leaf 0, false), (.leaf 1, false), (.leaf 2, true), (.leaf 2, true)]).bind
      (fun t => t.finalize) =
      some (some (.node (.node (.leaf 0) (.leaf 1)) (.node (.leaf 2) (.leaf 2))),
        [{ index := some 2, txid := .leaf 2, path := [.leaf 2, .node (.leaf 0) (.leaf 1)], dups := [],
           root := .node (.node (.leaf 0) (.leaf 1)) (.node (.leaf 2) (.leaf 2)), depth := 3 },
         { index := some 3, txid := .leaf 2, path := [.leaf 2, .node (.leaf 0) (.leaf 1)], dups := [],
           root := .node (.node (.leaf 0) (.leaf 1)) (.node (.leaf 2) (.leaf 2)), depth := 3 }]) := by
    decide
  cases hf : feedTxs (newTree true) [(.leaf 0, false), (.leaf 1, false), (.leaf 2, true), (.leaf 2, true)] with
  | none => rw [hf] at hrun; cases hrun
  | some t =>
    rw [hf] at hrun
    simp only [Option.bind_some] at hrun
    refine ⟨t, _, _, rfl, by rw [hrun, hroot], rfl, rfl, rfl, rfl, rfl, ?_⟩
    decide

/-- **C04 (the guards do not reject an honest block).** A duplicate-free block that arrives complete
    under the requested header, with the header's merkle root, no processor/store error and no
    cancellation, is accepted — so `C04_confirm_exact` applies: every relevant transaction is confirmed,
    once, in block order. (Without this the "only when" clauses could be met by refusing everything;
    it needs the proof-construction theorem above because the repaired code verifies every proof.) -/
theorem C04_honest_block_accepted (env : Env) (header : Header) (txCount : Nat) (ids : List Nat)
    (hnd : ids.Nodup) (hreq : header = env.requested) (hpre : env.preCancelled = false)
    (hcount : ids.length = txCount) (hroot : merkleRoot (ids.map H.leaf) = header.root)
    (hproc : ∀ k, k < ids.length → env.proc k ≠ .error)
    (hcancel : ∀ k, k < ids.length → env.cancelDuring ≠ some k) (hlate : env.cancelAfterLast = false)
    (hcb : env.coinbaseErr = false) (hcf : env.confirmErr = none) (hst : env.storeErr = false) :
    (handleBlock env header txCount (ids.map H.leaf)).ret = .ok ∧
    (handleBlock env header txCount (ids.map H.leaf)).complete = .ok := by
  have hg : AllGood env header txCount (ids.map H.leaf) :=
    ⟨by simpa using hproc, by simpa using hcancel, by simpa using hcount, hroot, hlate⟩
  have hreq' : env.requested = header := hreq.symm
  unfold handleBlock
  simp only [hpre, Bool.false_eq_true, ↓reduceIte, hreq', ne_eq, not_true_eq_false]
  suffices h : (handleBlockInner env header txCount (ids.map H.leaf)).2 = .ok from ⟨h, h⟩
  rcases inner_cases env header txCount (ids.map H.leaf) with hs | ⟨_, ps, hkeys, _, _, heq⟩
  · -- the only silent outcome left is a proof that does not verify: impossible without duplicates
    exfalso
    obtain ⟨_, st, ps, hrun, hinv, hfin, p, hp, hpv⟩ := hs.2.2 hg
    have hpg := txLoop_pg env ids {} st [] [] (by simpa using hnd) (by simpa using loopInv_init)
      (by intro mp hmp; cases hmp) hrun
    simp only [List.nil_append] at hpg
    by_cases hne : ids = []
    · subst hne
      have hc : st.tree.count = 0 := by simpa using hinv.tree.count
      unfold Tree.finalize at hfin
      simp only [hc, ↓reduceIte, Option.some.injEq, Prod.mk.injEq] at hfin
      rw [← hfin.2] at hp; cases hp
    · have hcalc := pg_finalize st.tree ids hnd hne hinv.tree hpg _ ps hfin p hp
      apply hpv
      unfold Proof.verify
      rw [hcalc]
      cases hr : merkleRoot (ids.map H.leaf) with
      | none => exact absurd hr (merkleRoot_ne_none _ (by simpa using hne))
      | some r => simp [← hroot, hr]
  · rw [heq]
    have hids := keys_txids ps _ hkeys
    obtain ⟨_, _, _, _, hiff⟩ :=
      issuePhase_spec env header ((ids.map H.leaf).map Call.processTx) (ids.map H.leaf).head? ps _ hids
    exact hiff.mpr ⟨hcb, fun j _ => by rw [hcf]; simp, hst⟩

example : (handleBlock
    { requested := ⟨merkleRoot [.leaf 5, .leaf 6, .leaf 7], 0⟩, height := 9,
      proc := fun k => if k = 1 then .relevant else .notRelevant }
    ⟨merkleRoot [.leaf 5, .leaf 6, .leaf 7], 0⟩ 3 ([5, 6, 7].map H.leaf)).ret = .ok :=
  (C04_honest_block_accepted _ _ 3 [5, 6, 7] (by decide) rfl rfl rfl rfl
    (by intro k _; simp only; split <;> simp) (by intro k _; simp) rfl rfl rfl rfl).1

/-! ## 6. non-vacuity: the model evaluated on concrete blocks (kernel evaluation, `decide`) -/

/-- root of the block of transactions 5,6,7,8,9. -/
def exRoot : H :=
  .node (.node (.node (.leaf 5) (.leaf 6)) (.node (.leaf 7) (.leaf 8)))
        (.node (.node (.leaf 9) (.leaf 9)) (.node (.leaf 9) (.leaf 9)))

example : merkleRoot ([5, 6, 7, 8, 9].map H.leaf) = some exRoot := by simp [merkleRoot, pairUp, exRoot]

/-- the downloader asked for the header committing to 5..9; the 2nd and 5th transaction are relevant. -/
def exEnv : Env :=
  { requested := ⟨some exRoot, 0⟩, height := 700000,
    proc := fun k => if k = 1 ∨ k = 4 then .relevant else .notRelevant }

def exBlock : List H := [5, 6, 7, 8, 9].map H.leaf

-- success: hypotheses of C04_confirm_exact / C04_confirm_guarded / C04_proofs_verify are met
example : (handleBlock exEnv exEnv.requested 5 exBlock).ret = .ok := by decide
example : ((handleBlock exEnv exEnv.requested 5 exBlock).calls.filter Call.isIssue).length = 4 := by decide
example : ((handleBlock exEnv exEnv.requested 5 exBlock).calls.filterMap
    (fun c => match c with | .confirm t _ p _ _ => some (t, p.index, p.path.length, p.dups) | _ => none))
    = [(.leaf 6, some 1, 3, []), (.leaf 9, some 4, 1, [1, 2])] := by decide
-- the proof of tx 9 (position 4, twice on a duplicated-last level) denotes the textbook path
example : ((handleBlock exEnv exEnv.requested 5 exBlock).calls.filterMap
    (fun c => match c with | .confirm _ _ p _ _ => some p.siblings | _ => none))[1]? =
    some [.leaf 9, .node (.leaf 9) (.leaf 9), .node (.node (.leaf 5) (.leaf 6)) (.node (.leaf 7) (.leaf 8))] := by decide
example : merklePath exBlock 4 =
    [.leaf 9, .node (.leaf 9) (.leaf 9), .node (.node (.leaf 5) (.leaf 6)) (.node (.leaf 7) (.leaf 8))] := by
  simp [exBlock, merklePath, sibling, pairUp]
-- every failure class of C04_any_failure_silent, on the same block
example : (handleBlock exEnv ⟨some exRoot, 1⟩ 5 exBlock).complete = .wrongBlock ∧
    (handleBlock exEnv ⟨some exRoot, 1⟩ 5 exBlock).calls = [] := by decide
example : (handleBlock exEnv exEnv.requested 6 exBlock).ret = .cancelled := by decide       -- short / cut
example : (handleBlock exEnv exEnv.requested 5 ([5, 6, 7, 8, 9, 10].map H.leaf)).ret = .cancelled := by decide
example : (handleBlock exEnv exEnv.requested 5 ([5, 6, 8, 7, 9].map H.leaf)).ret = .wrongRoot ∧
    ((handleBlock exEnv exEnv.requested 5 ([5, 6, 8, 7, 9].map H.leaf)).calls.filter Call.isIssue) = [] := by
  decide
example : (handleBlock exEnv exEnv.requested 5 ([5, 6, 7, 11, 9].map H.leaf)).ret = .wrongRoot := by decide
example : (handleBlock { exEnv with cancelDuring := some 2 } exEnv.requested 5 exBlock).ret = .cancelled ∧
    (handleBlock { exEnv with cancelDuring := some 2 } exEnv.requested 5 exBlock).calls.length = 3 := by decide
example : (handleBlock { exEnv with cancelAfterLast := true } exEnv.requested 5 exBlock).ret = .cancelled := by decide
example : (handleBlock { exEnv with proc := fun k => if k = 3 then .error else .relevant } exEnv.requested 5 exBlock).ret
    = .processErr := by decide
-- hypothesis of C04_store_error_after_confirms
example : (handleBlock { exEnv with storeErr := true } exEnv.requested 5 exBlock).ret = .storeErr ∧
    ((handleBlock { exEnv with storeErr := true } exEnv.requested 5 exBlock).calls.filter Call.isIssue).length = 4 := by
  decide
example : (handleBlock { exEnv with confirmErr := some 0 } exEnv.requested 5 exBlock).ret = .confirmErr ∧
    ((handleBlock { exEnv with confirmErr := some 0 } exEnv.requested 5 exBlock).calls.filter Call.isIssue).length = 2 := by
  decide
-- the duplicated tail through the repaired handleBlock: 5..9 followed by a second 9 has the same root.
-- Refused when the repeated copy (call 5) is relevant, accepted (classical ambiguity) when it is not.
example : (handleBlock { exEnv with proc := fun k => if k = 5 then .relevant else .notRelevant } exEnv.requested 6
    ([5, 6, 7, 8, 9, 9].map H.leaf)).ret = .proofInvalid ∧
    (handleBlock { exEnv with proc := fun k => if k = 5 then .relevant else .notRelevant } exEnv.requested 6
    ([5, 6, 7, 8, 9, 9].map H.leaf)).calls.filter Call.isIssue = [] := by decide
example : (handleBlock exEnv exEnv.requested 6 ([5, 6, 7, 8, 9, 9].map H.leaf)).ret = .ok := by decide

end BRV.Merkle
