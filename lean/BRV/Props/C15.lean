/-
C15 — No bytes from a peer can crash the process.

What is THEOREM here (about the model of the code in this repository, tied to it by the `node`
correspondence on hostile streams run in an isolated worker process):
* `readMessage` never sizes an allocation from the declared length (model of fix 716cf63: the
  buffer grows with the bytes received), whatever the length up to 2^64−1;
* the deferred discard arithmetic `n − counter.Count()` (uint64) wraps exactly when a handler read
  more than the declared length, and then the discard only reads (and drops) the stream: the
  outcome is waiting / closed, never an abort;
* no byte string blocks the read loop for ever, so `Run` returns once the connection is closed;
* `handleMessage` aborts the process on NO input provided the host grants every allocation the Go
  runtime does not reject itself (`maxAlloc ≤ env.mem`) — `C15_no_abort_partial`.

What is NOT a theorem and why: the full statement "for every byte stream the process keeps running"
is FALSE for the unchanged dependency tokenized/pkg/wire: `ReadVarString`, `MsgTx.BtcDecode` and
`readScript` pass peer-declared counts (up to 2^48−1) to `make` before reading the data; a fatal
out-of-memory is not recoverable. `C15_decoder_alloc_witness` is the kernel-checked counterexample
(an 89-byte `version` message before the handshake); it is reported as known finding
`alloc-declared-count`. The decoders are modelled by contract and explored by mutation fuzzing in
the isolated worker, not proved about the Go code.
-/
import BRV.Props.C14

namespace BRV.Wire
open BRV BRV.Node BRV.Spec

/-! ## the deferred discard -/

/-- **C15 (discard arithmetic).** `DiscardInputWithCounter(r, L, counter)` asks for `L − used`
    bytes when the handler stayed within the declared length, and for `2^64 − (used − L)` (wrap)
    exactly when it over-read; `DiscardInput` itself allocates one `Facts.discardChunk` buffer. -/
theorem C15_discard_arith (L used : Nat) (hL : L < two64) (hu : used < two64) :
    (used ≤ L → discardLen L used = L - used) ∧ (L < used → discardLen L used = two64 - (used - L)) :=
  ⟨fun h => discardLen_le L used h hL, fun h => discardLen_wrap L used h hu⟩

/-- the deferred discard never turns a handler result into an abort or a block: it keeps the
    result or waits for input. -/
theorem C15_discard_no_abort (L avail : Nat) (o : HOut) :
    (finish L avail o).res = o.res ∨ (finish L avail o).res = .need := finish_res_cases L avail o

/-- every read `DiscardInput` issues is at most one chunk. -/
theorem C15_discard_chunks (n : Nat) : ∀ k ∈ discardReads n, k ≤ Facts.discardChunk := by
  intro k hk
  unfold discardReads at hk
  simp only [List.mem_append, List.mem_replicate] at hk
  rcases hk with ⟨_, rfl⟩ | hk
  · exact Nat.le_refl _
  · split at hk
    · simp only [List.mem_singleton] at hk
      subst hk
      exact Nat.le_of_lt (Nat.mod_lt _ (by decide))
    · cases hk

/-! ## allocation -/

/-- **C15 (readMessage does not trust the declared length).** Whatever length the header declares
    (0 .. 2^64−1), whatever limit the message type sets, `readMessage` ends as payload / too large /
    bad checksum / waiting: it has no aborting outcome (before fix 716cf63 it did
    `make([]byte, header.Length)`: see corpus/C15/node-alloc-declared-length.ops). -/
theorem C15_readMessage_no_abort (e : Env) (s : State) (maxLen L : Nat) (c : Bool) (ck inp : Bytes)
    (k : Bytes → HOut) (hk : ∀ p, (k p).res ≠ .panic) :
    (viaReadMessage s (readMessage e maxLen L c ck inp) L k).res ≠ .panic := by
  unfold viaReadMessage
  split
  · exact hk _
  all_goals simp

theorem allocCheck_no_oom (mem n : Nat) (hm : maxAlloc ≤ mem) : allocCheck mem n ≠ .oom := by
  unfold allocCheck
  split
  · simp
  · split
    · omega
    · simp

theorem bufVarBytes_no_oom (mem : Nat) (b : Bytes) (hm : maxAlloc ≤ mem) : bufVarBytes mem b ≠ .oom := by
  unfold bufVarBytes
  split
  · simp
  · split
    · simp
    · split
      · simp
      · rename_i h; exact absurd h (allocCheck_no_oom _ _ hm)
      · split <;> simp

theorem bufScript_no_oom (mem : Nat) (b : Bytes) (hm : maxAlloc ≤ mem) : bufScript mem b ≠ .oom := by
  unfold bufScript
  split
  · simp
  · split
    · simp
    · split
      · simp
      · rename_i h
        split at h
        · exact absurd h (allocCheck_no_oom _ _ hm)
        · cases h
      · split <;> simp

theorem decVersion_no_oom (mem : Nat) (p : Bytes) (hm : maxAlloc ≤ mem) : decVersion mem p ≠ .oom := by
  unfold decVersion
  repeat' split
  all_goals (first | (simp; done) | simp_all [bufVarBytes_no_oom _ _ hm, allocCheck_no_oom _ _ hm, bufScript_no_oom _ _ hm])

theorem decReject_no_oom (mem : Nat) (p : Bytes) (hm : maxAlloc ≤ mem) : decReject mem p ≠ .oom := by
  unfold decReject
  repeat' split
  all_goals (first | (simp; done) | simp_all [bufVarBytes_no_oom _ _ hm, allocCheck_no_oom _ _ hm, bufScript_no_oom _ _ hm])

theorem decProtoconf_no_oom (mem : Nat) (p : Bytes) (hm : maxAlloc ≤ mem) : decProtoconf mem p ≠ .oom := by
  unfold decProtoconf
  repeat' split
  all_goals (first | (simp; done) | simp_all [bufVarBytes_no_oom _ _ hm, allocCheck_no_oom _ _ hm, bufScript_no_oom _ _ hm])

theorem decTxIns_no_oom (mem : Nat) (k : Nat) (b : Bytes) (hm : maxAlloc ≤ mem) : decTxIns mem k b ≠ .oom := by
  induction k generalizing b with
  | zero => unfold decTxIns; simp
  | succ k ih =>
    unfold decTxIns
    split
    · simp
    · split
      · simp
      · rename_i h; exact absurd h (bufScript_no_oom _ _ hm)
      · split
        · simp
        · exact ih _

theorem decTxOuts_no_oom (mem : Nat) (k : Nat) (b : Bytes) (hm : maxAlloc ≤ mem) : decTxOuts mem k b ≠ .oom := by
  induction k generalizing b with
  | zero => unfold decTxOuts; simp
  | succ k ih =>
    unfold decTxOuts
    split
    · simp
    · split
      · simp
      · rename_i h; exact absurd h (bufScript_no_oom _ _ hm)
      · exact ih _

theorem decTx_no_oom (mem : Nat) (p : Bytes) (hm : maxAlloc ≤ mem) : decTx mem p ≠ .oom := by
  unfold decTx
  repeat' split
  all_goals (first | (simp; done) | simp_all [allocCheck_no_oom _ _ hm, decTxIns_no_oom _ _ _ hm, decTxOuts_no_oom _ _ _ hm])

/-- the streaming transaction parser of the requested block never reports a fatal allocation
    either (same hypothesis). -/
theorem sAlloc_ne_oom (mem n : Nat) (hm : maxAlloc ≤ mem) : sAlloc mem n ≠ .oom := by
  unfold sAlloc
  split
  · simp
  · split
    · omega
    · simp

theorem sScript_ne_oom (mem : Nat) (b : Bytes) (hm : maxAlloc ≤ mem) : sScript mem b ≠ .oom := by
  unfold sScript
  split
  · simp
  · simp
  · simp
  · rename_i h; unfold sVarInt at h; split at h <;> cases h
  · split
    · simp
    · split
      · simp
      · simp
      · simp
      · rename_i h
        split at h
        · exact absurd h (sAlloc_ne_oom _ _ hm)
        · cases h
      · split <;> simp

theorem sTxIns_ne_oom (mem : Nat) (hm : maxAlloc ≤ mem) (fuel remaining : Nat) (b : Bytes) :
    sTxIns mem fuel remaining b ≠ .oom := by
  induction fuel generalizing remaining b with
  | zero => cases remaining <;> (unfold sTxIns; simp)
  | succ fuel ih =>
    cases remaining with
    | zero => unfold sTxIns; simp
    | succ remaining =>
      unfold sTxIns
      split
      · split
        · split
          · exact ih _ _
          · simp
        · simp
        · simp
        · simp
        · rename_i h; exact absurd h (sScript_ne_oom _ _ hm)
      · simp

theorem sTxOuts_ne_oom (mem : Nat) (hm : maxAlloc ≤ mem) (fuel remaining : Nat) (b : Bytes) :
    sTxOuts mem fuel remaining b ≠ .oom := by
  induction fuel generalizing remaining b with
  | zero => cases remaining <;> (unfold sTxOuts; simp)
  | succ fuel ih =>
    cases remaining with
    | zero => unfold sTxOuts; simp
    | succ remaining =>
      unfold sTxOuts
      split
      · split
        · exact ih _ _
        · simp
        · simp
        · simp
        · rename_i h; exact absurd h (sScript_ne_oom _ _ hm)
      · simp

theorem sTx_ne_oom (mem : Nat) (b : Bytes) (hm : maxAlloc ≤ mem) : sTx mem b ≠ .oom := by
  unfold sTx
  repeat' split
  all_goals (first | (simp; done) | simp_all [sAlloc_ne_oom _ _ hm, sTxIns_ne_oom _ hm, sTxOuts_ne_oom _ hm])

theorem blockLoop_ne_oom (mem : Nat) (hm : maxAlloc ≤ mem) (fuel remaining : Nat) (b : Bytes) (got : Nat) :
    (blockLoop mem fuel remaining b got).1 ≠ .oom := by
  induction fuel generalizing remaining b got with
  | zero => cases remaining <;> (unfold blockLoop; simp)
  | succ fuel ih =>
    cases remaining with
    | zero => unfold blockLoop; simp
    | succ remaining =>
      unfold blockLoop
      split
      · exact ih _ _ _
      · rename_i x hx
        simp only []
        exact sTx_ne_oom mem b hm

/-! ## no handler aborts when the host grants what the runtime allows -/

def NoPanic (o : HOut) : Prop := o.res ≠ .panic

theorem viaReadMessage_nopanic (s : State) (rm : RM) (L : Nat) (k : Bytes → HOut)
    (hk : ∀ p, NoPanic (k p)) : NoPanic (viaReadMessage s rm L k) := by
  unfold viaReadMessage
  split
  · exact hk _
  all_goals (unfold NoPanic; simp)

theorem finish_nopanic (L a : Nat) (o : HOut) (h : NoPanic o) : NoPanic (finish L a o) := by
  unfold NoPanic at *
  rcases finish_res_cases L a o with hr | hr <;> rw [hr]
  · exact h
  · simp

theorem trackLoop_nopanic (e : Env) (s : State) (k : Nat) (b : Bytes) (used : Nat) (fx : List Effect) :
    NoPanic (trackLoop e s k b used fx) := by
  induction k generalizing b used fx with
  | zero => unfold trackLoop NoPanic; simp
  | succ k ih =>
    unfold trackLoop
    split
    · unfold NoPanic; simp
    · unfold NoPanic; simp
    · simp only []
      split
      · unfold NoPanic; simp
      · split
        · exact ih _ _ _
        · unfold NoPanic; simp

theorem invLoop_nopanic (s : State) (k : Nat) (b : Bytes) (used : Nat) (fx : List Effect) (pending : Nat) :
    NoPanic (invLoop s k b used fx pending) := by
  induction k generalizing s b used fx pending with
  | zero => unfold invLoop NoPanic; simp
  | succ k ih =>
    unfold invLoop
    split
    · unfold NoPanic; simp
    · unfold NoPanic; simp
    · simp only []
      split
      · exact ih _ _ _ _ _
      · split
        · exact ih _ _ _ _ _
        · split <;> exact ih _ _ _ _ _

theorem hTx_nopanic (e : Env) (s : State) (L : Nat) (c : Bool) (ck inp : Bytes) (hm : maxAlloc ≤ e.mem) :
    NoPanic (hTx e s L c ck inp) := by
  unfold hTx
  split
  · split <;> (unfold NoPanic; simp)
  · apply viaReadMessage_nopanic
    intro p
    split
    · unfold NoPanic; simp
    · rename_i h; exact absurd h (decTx_no_oom _ _ hm)
    · unfold NoPanic; simp

theorem hBlock_nopanic (e : Env) (s : State) (L : Nat) (inp : Bytes) (hm : maxAlloc ≤ e.mem) :
    NoPanic (hBlock e s L inp) := by
  unfold hBlock
  apply finish_nopanic
  split
  · unfold NoPanic; simp
  · unfold NoPanic; simp
  · simp only []
    split
    · unfold NoPanic; simp
    · split
      · unfold NoPanic; simp
      · split
        · unfold NoPanic; simp
        · split
          · unfold NoPanic; simp
          · unfold NoPanic; simp
          · split
            · unfold NoPanic; simp
            · unfold NoPanic; simp
            · unfold NoPanic; simp
            · rename_i h; exact absurd h (blockLoop_ne_oom _ hm _ _ _ _)
            · unfold NoPanic; simp

theorem dispatch_nopanic (e : Env) (s : State) (h : Handler) (L : Nat) (ck body : Bytes)
    (hm : maxAlloc ≤ e.mem) : NoPanic (dispatch e s h L ck body) := by
  cases h <;> simp only [dispatch]
  · unfold hVersion; apply viaReadMessage_nopanic; intro p
    split
    · unfold NoPanic; simp
    · rename_i h; exact absurd h (decVersion_no_oom _ _ hm)
    · unfold NoPanic; simp
  · unfold hVerack; apply viaReadMessage_nopanic; intro p; unfold NoPanic; simp
  · unfold hHeadersVerify
    split
    · unfold NoPanic; simp
    · apply finish_nopanic
      unfold hHeadersVerifyBody
      split
      · unfold NoPanic; simp
      · unfold NoPanic; simp
      · simp only []
        split
        · unfold NoPanic; simp
        · split
          · unfold NoPanic; simp
          · unfold NoPanic; simp
          · split
            · unfold NoPanic; simp
            · split
              · unfold NoPanic; simp only []; split <;> simp
              · unfold NoPanic; simp
  · unfold hHeadersTrack
    split
    · unfold NoPanic; simp
    · unfold NoPanic
      rw [withAlt_res]
      apply finish_nopanic
      unfold hHeadersTrackBody
      split
      · unfold NoPanic; simp
      · unfold NoPanic; simp
      · exact trackLoop_nopanic _ _ _ _ _ _
  · unfold hProtoconf
    apply finish_nopanic
    apply viaReadMessage_nopanic
    intro p
    split
    · unfold NoPanic; simp
    · rename_i h; exact absurd h (decProtoconf_no_oom _ _ hm)
    · simp only []; split <;> (unfold NoPanic; simp)
  · unfold hPing; apply viaReadMessage_nopanic; intro p; split <;> (unfold NoPanic; simp)
  · unfold hPong; apply viaReadMessage_nopanic; intro p
    split
    · unfold NoPanic; simp
    · split <;> (unfold NoPanic; simp)
  · unfold hReject; apply viaReadMessage_nopanic; intro p
    split
    · unfold NoPanic; simp
    · rename_i h; exact absurd h (decReject_no_oom _ _ hm)
    · unfold NoPanic; simp
  · unfold hExtended
    split
    · unfold NoPanic; simp
    · unfold NoPanic; simp
    · split
      · unfold NoPanic; simp
      · unfold NoPanic; simp
      · show NoPanic _
        unfold NoPanic
        simp only []
        apply finish_nopanic
        split
        · unfold NoPanic; simp
        · split
          · split
            · exact hBlock_nopanic _ _ _ _ hm
            · unfold NoPanic; simp
          · split
            · split
              · exact hTx_nopanic _ _ _ _ _ _ hm
              · unfold NoPanic; simp
            · unfold NoPanic; simp
  · unfold hAddress; apply viaReadMessage_nopanic; intro p
    split
    · unfold NoPanic; simp
    · rename_i h
      -- `MsgAddr.BtcDecode` bounds the count by 1000 before allocating: it never asks for much
      exfalso
      unfold decAddr at h
      split at h
      · cases h
      · split at h
        · cases h
        · split at h <;> cases h
    · unfold NoPanic; simp
  · unfold hGetAddresses NoPanic; simp
  · unfold hInventory
    split
    · unfold NoPanic; simp
    · unfold NoPanic; simp
    · exact invLoop_nopanic _ _ _ _ _ _
  · exact hTx_nopanic _ _ _ _ _ _ hm
  · exact hBlock_nopanic _ _ _ _ hm

/-- **C15 (no abort), partial.** FULL STATEMENT (false for the unchanged dependency, see the
    witness below): `∀ e s inp fx, handleMessage e s inp ≠ .panic fx`. PROVED: the same under
    `maxAlloc ≤ e.mem`, i.e. when the host grants every allocation request the Go runtime does not
    itself reject with a (recovered) panic. What is missing is a bound, inside tokenized/pkg/wire,
    of declared counts by the bytes actually present. Nothing in this repository's own code
    (header parsing, readMessage, discards, the handlers' loops) can abort for any input and any
    `e.mem`. -/
theorem C15_no_abort_partial (e : Env) (s : State) (inp : Bytes) (hm : maxAlloc ≤ e.mem) (fx : List Effect) :
    handleMessage e s inp ≠ .panic fx := by
  unfold handleMessage
  split
  · simp
  · split
    · simp
    · split
      · simp
      · simp only []
        split
        · split <;> simp
        · split
          · split <;> simp
          · rename_i hd _
            have := dispatch_nopanic e s hd (leVal ((inp.drop 16).take 4)) ((inp.drop 20).take 4) (inp.drop 24) hm
            unfold toOutcome
            split <;> simp_all [NoPanic]

/-- the whole read loop, any input: it never ends in an abort (same hypothesis). -/
theorem C15_run_no_abort_partial (e : Env) (hm : maxAlloc ≤ e.mem) (fuel : Nat) (s : State) (inp : Bytes)
    (acc : List Effect) : (run e fuel s inp acc).2 ≠ .panic := by
  induction fuel generalizing s inp acc with
  | zero => unfold run; simp
  | succ fuel ih =>
    unfold run
    split
    · exact ih _ _ _
    · simp
    · simp
    · simp
    · rename_i fx h; exact absurd h (C15_no_abort_partial e s inp hm fx)

/-- **C15 (Run returns).** For every byte stream the read loop ends waiting for input, closed, or
    (decoder allocation only) aborted — never blocked on a channel: once the connection is closed
    the pending read fails and `readIncoming`, hence `Run`, returns. -/
theorem C15_run_never_wedged (e : Env) (fuel : Nat) (s : State) (inp : Bytes) (acc : List Effect) (s' : State) :
    (run e fuel s inp acc).2 ≠ .wedged s' := by
  induction fuel generalizing s inp acc with
  | zero => unfold run; simp
  | succ fuel ih =>
    unfold run
    split
    · exact ih _ _ _
    · simp
    · simp
    · rename_i s'' fx h; exact absurd h (C14_never_wedges e s inp s'' fx)
    · simp

/-- **the witness against the full statement** (known finding `alloc-declared-count`): an 89-byte
    `version` message — sent before any handshake — whose user-agent length field says 2^40, on a
    host that grants up to 2 GiB per allocation: the dependency's `ReadVarString` asks `make` for
    2^40 bytes and the process is gone. -/
def Dec.isOom {α : Type} : Dec α → Bool
  | .oom => true
  | _ => false

def Outcome.isPanic : Outcome → Bool
  | .panic _ => true
  | _ => false

def Outcome.isNeed : Outcome → Bool
  | .need _ _ _ => true
  | _ => false

theorem C15_decoder_alloc_witness :
    (decVersion (2 ^ 31) (List.replicate 80 1 ++ [0xff, 0, 0, 0, 0, 0, 1, 0, 0])).isOom = true := by
  decide +kernel

/-! ### non-vacuity -/

namespace Example

/-- the hypothesis of the partial theorem is satisfiable … -/
example : maxAlloc ≤ ({ env0 with mem := 2 ^ 48 } : Env).mem := by decide

/-- … and without it the conclusion fails on concrete bytes: the witness payload framed as a
    `version` message makes `handleMessage` abort. -/
example : (handleMessage env0 (initState false false false 0)
    (classicFrame env0 (ascii "version") (List.replicate 80 1 ++ [0xff, 0, 0, 0, 0, 0, 1, 0, 0]))).isPanic = true := by
  decide +kernel

def readyState : State :=
  { (initState false true false 0) with
    table := install Facts.acceptHandlers true preTable, ready := true, verified := true, hsComplete := true }

/-- an extended `tx` declaring 2^62 bytes only waits (no allocation from the declared length). -/
example : (handleMessage env0 readyState
    (env0.net ++ cmdField (ascii "extmsg") ++ leN 4 0xffffffff ++ [0, 0, 0, 0] ++ cmdField (ascii "tx") ++
      leN 8 (2 ^ 62) ++ [1, 0, 0, 0])).isNeed = true := by decide +kernel

end Example

/-- the locking and signalling of a connection's send / receive machinery as the arguments of this file take it:
    `MessageChannel.Add` tests `open` and sends UNDER the queue's lock and `Close` closes under it (a sender parked
    on a full queue can therefore not be hit by the close; `sendOutgoing`'s flush loops after a failed write or a
    lost connection release it), `handleMessage` runs the handler in a goroutine with a deferred recover that reports
    on the error channel, `TxManager.sendTx` gives up on interrupt. -/
def expectedConnTraces : List (String × List String) := [
  ("MessageChannel.Add", ["c.lock.Lock", "defer c.lock.Unlock", "if{", "return", "}", "send c.Channel", "return"]),
  ("MessageChannel.Open", ["c.lock.Lock", "defer c.lock.Unlock", "return"]),
  ("MessageChannel.Close", ["c.lock.Lock", "defer c.lock.Unlock", "if{", "return", "}", "close c.Channel",
      "return"]),
  ("BitcoinNode.sendMessage", ["return"]),
  ("BitcoinNode.sendOutgoing", ["range n.outgoingMsgChannel.Channel{", "n.connectionLock.Lock",
      "n.connectionLock.Unlock", "if{", "range n.outgoingMsgChannel.Channel{", "}", "return", "}", "if{",
      "range n.outgoingMsgChannel.Channel{", "}", "return", "}", "}", "return"]),
  ("BitcoinNode.readIncoming", ["for{", "n.connectionLock.Lock", "n.connectionLock.Unlock", "if{", "return", "}",
      "if{", "if{", "n.connectionLock.Lock", "n.connectionLock.Unlock", "return", "}", "else{", "return", "}", "}",
      "}"]),
  ("BitcoinNode.handleMessage", ["n.Lock", "n.Unlock", "if{", "return", "}", "if{", "return", "}", "n.Lock",
      "n.Unlock", "if{", "if{", "return", "}", "return", "}", "go{", "defer{", "if{", "send errChan", "}", "}",
      "send errChan", "}", "for{", "case{", "comm err := <-errChan", "if{", "return", "}", "return", "}", "case{",
      "comm <-time.After(timeout)", "}", "}", "return"]),
  ("TxManager.sendTx", ["for{", "case{", "comm m.txChannel <- tx", "return", "}", "case{", "comm <-interrupt",
      "return", "}", "case{", "comm <-time.After(3 * time.Second)", "}", "}"]),
  ("TxManager.Run", ["m.Lock", "m.Unlock", "if{", "range m.txChannel{", "}", "return", "}", "range m.txChannel{",
      "if{", "return", "}", "if{", "if{", "if{", "return", "}", "}", "}", "}", "return"]),
  ("TxManager.Stop", ["close m.txChannel"])
]

/-- **C15 (the send / receive discipline the arguments assume is the one in the source)**: regenerated from messages.go,
    handlers.go and tx_manager.go on every run (`lockTrace` in go/cmd/extract). Seeds C15f (the send moved out of the
    queue's lock) and C15g (a flush loop removed) change this list; both are also caught with a concrete history by the
    `mgrstall` stream. -/
theorem C15_conn_traces_in_source : Facts.connTraces = expectedConnTraces := by decide

end BRV.Wire
