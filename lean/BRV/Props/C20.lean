/-
C20 — The peer address book is duplicate-free, score-consistent and survives save/load.

Property theorems only (helper lemmas live in Proofs/PeersLemmas.lean). Every theorem is about the
executable model `BRV.Peers` (Model/Peers.lean), which the `peers` correspondence harness ties to
/repo/peers.go on every run. Quantifiers: every finite op sequence (`List Op`), every address
(`Bytes`, any length below 2^31, any content), every delta, every clock reading, every byte string.
-/
import BRV.Proofs.PeersLemmas

namespace BRV.Peers

/-- ops whose arguments are what the Go API can carry: `int32` deltas, `uint32` clock,
    addresses shorter than 2^31 bytes (Go strings passed to `Add`). -/
def Op.wf : Op → Prop
  | .add a => a.length < 2 ^ 31
  | .score _ d now => inI32 d ∧ now < 2 ^ 32
  | .time _ now => now < 2 ^ 32
  | _ => True

/-- invariant of API-only histories: unique addresses, representable fields, and the stored file
    is the encoding of some such list. -/
structure Inv (s : State) : Prop where
  nodup : (s.list.map (·.addr)).Nodup
  wf : wfList s.list
  file : ∀ b, s.file = some b → ∃ l, b = encode l ∧ (l.map (·.addr)).Nodup ∧ wfList l

theorem inv_init : Inv ({} : State) :=
  ⟨by simp, by intro p hp; simp at hp, by intro b hb; simp at hb⟩

theorem take_nodup_wf (l : List Peer) (n : Nat) (h1 : (l.map (·.addr)).Nodup) (h2 : wfList l) :
    ((l.take n).map (·.addr)).Nodup ∧ wfList (l.take n) := by
  constructor
  · rw [List.map_take]
    exact List.Sublist.nodup (List.take_sublist n _) h1
  · intro p hp; exact h2 p (List.mem_of_mem_take hp)

/-- one step of any op — including truncated-file loads — preserves the invariant
    (hand-made files, `loadRaw`, are excluded: the property's first sentence is about API histories). -/
theorem inv_step (s : State) (op : Op) (hs : Inv s) (hop : op.wf) (hraw : ∀ b, op ≠ .loadRaw b) :
    Inv (step s op) := by
  cases op with
  | add a =>
    simp only [step, add]
    split
    · exact hs
    · rename_i hna
      have hna' : hasAddr s.list a = false := by simpa using hna
      refine ⟨?_, ?_, hs.file⟩
      · simp only [List.map_append, List.map_cons, List.map_nil]
        rw [List.nodup_append]
        refine ⟨hs.nodup, by simp, ?_⟩
        intro x hx y hy
        simp only [List.mem_singleton] at hy
        subst hy
        intro hxy; subst hxy
        exact (hasAddr_false_iff _ _).mp hna' hx
      · intro p hp
        simp only [List.mem_append, List.mem_singleton] at hp
        rcases hp with hp | rfl
        · exact hs.wf p hp
        · exact ⟨by unfold inI32; simp, by simp, hop⟩
  | score a d now =>
    simp only [step, updateScore]
    split
    · rename_i l' hl'
      refine ⟨?_, ?_, hs.file⟩
      · simp only
        rw [updLast_map_addr _ _ _ _ (by intro p; rfl) hl']; exact hs.nodup
      · exact updLast_wf _ _ _ _ (by intro p hp; exact ⟨wrap32_inI32 _, hop.2, hp.2.2⟩) hs.wf hl'
    · exact hs
  | time a now =>
    simp only [step, updateTime]
    split
    · rename_i l' hl'
      refine ⟨?_, ?_, hs.file⟩
      · simp only
        rw [updLast_map_addr _ _ _ _ (by intro p; rfl) hl']; exact hs.nodup
      · exact updLast_wf _ _ _ _ (by intro p hp; exact ⟨hp.1, (show now < 2 ^ 32 from hop), hp.2.2⟩) hs.wf hl'
    · exact hs
  | get lo hi => exact hs
  | count => exact hs
  | save =>
    refine ⟨hs.nodup, hs.wf, ?_⟩
    intro b hb
    simp only [step, save, Option.some.injEq] at hb
    exact ⟨s.list, hb.symm, hs.nodup, hs.wf⟩
  | load =>
    simp only [step, load]
    split
    · exact ⟨by simp, by intro p hp; simp at hp, hs.file⟩
    · rename_i b hb
      obtain ⟨l, hl, hn, hw⟩ := hs.file b hb
      subst hl
      rw [decode_encode l hw]
      exact ⟨hn, hw, hs.file⟩
  | loadRaw b => exact absurd rfl (hraw b)
  | clear => exact ⟨by simp [step, clear], by intro p hp; simp [step, clear] at hp, by intro b hb; simp [step, clear] at hb⟩
  | loadCut k =>
    simp only [step]
    split
    · rename_i hnone
      exact ⟨by simp, by intro p hp; simp at hp, hs.file⟩
    · rename_i b hb
      obtain ⟨l, hl, hn, hw⟩ := hs.file b hb
      subst hl
      by_cases hk : 5 ≤ k
      · rw [decode_take l k hw hk]
        have := take_nodup_wf l (fullCount l (k - 5)) hn hw
        exact ⟨this.1, this.2, hs.file⟩
      · rw [decode_take_short l k (by omega)]
        exact ⟨by simp, by intro p hp; simp at hp, hs.file⟩

theorem inv_run (s : State) (ops : List Op) (hs : Inv s) (hops : ∀ op ∈ ops, op.wf)
    (hraw : ∀ op ∈ ops, ∀ b, op ≠ .loadRaw b) : Inv (run s ops) := by
  induction ops generalizing s with
  | nil => exact hs
  | cons op ops ih =>
    simp only [run, List.foldl_cons]
    exact ih _ (inv_step s op hs (hops op (by simp)) (hraw op (by simp)))
      (fun o ho => hops o (by simp [ho])) (fun o ho => hraw o (by simp [ho]))

/-! ## The property theorems -/

/-- **C20, sentence 1 (each address is held once).** After any history of API operations and
    loads of files cut at any point, no address occurs twice. -/
theorem C20_nodup (ops : List Op) (hops : ∀ op ∈ ops, op.wf) (hraw : ∀ op ∈ ops, ∀ b, op ≠ .loadRaw b) :
    ((run {} ops).list.map (·.addr)).Nodup :=
  (inv_run {} ops inv_init hops hraw).nodup

/-- `Add` reports `true` exactly when the address was not held, and then it is held. -/
theorem C20_add_iff (s : State) (a : Bytes) :
    ((add s a).2 = true ↔ a ∉ s.list.map (·.addr)) ∧ a ∈ (add s a).1.list.map (·.addr) := by
  unfold add
  by_cases h : hasAddr s.list a = true
  · simp only [h, ↓reduceIte, Bool.false_eq_true, false_iff]
    have : ¬ (a ∉ s.list.map (·.addr)) := by
      intro hn; rw [← hasAddr_false_iff] at hn; rw [hn] at h; cases h
    exact ⟨this, Classical.not_not.mp this⟩
  · have h' : hasAddr s.list a = false := by simpa using h
    simp only [h', Bool.false_eq_true, ↓reduceIte, true_iff]
    exact ⟨(hasAddr_false_iff _ _).mp h', by simp⟩

/-- **C20, sentence 2 (score query).** `Get lo hi` returns exactly the held peers whose current
    score lies in `[lo, hi]`, an upper bound of −1 meaning unbounded. The sentinel is the one
    extracted from the source (`Facts.peersUnboundedSentinel`). -/
theorem C20_get_exact (s : State) (lo hi : Int) (p : Peer) :
    p ∈ get s lo hi ↔ p ∈ s.list ∧ lo ≤ p.score ∧ (hi = -1 ∨ p.score ≤ hi) := by
  have hsent : Facts.peersUnboundedSentinel = -1 := rfl
  unfold get
  simp [List.mem_filter, hsent]

/-- `Get` never invents or duplicates: it is a sublist of the book (so multiplicities agree). -/
theorem C20_get_sublist (s : State) (lo hi : Int) : (get s lo hi).Sublist s.list := by
  unfold get; exact List.filter_sublist

/-! ### score = sum of deltas: refinement to an abstract book -/

/-- the abstract address book: address ↦ (score, last-seen). -/
abbrev Book := Bytes → Option (Int × Nat)

def absList (l : List Peer) : Book := fun a =>
  (l.find? (fun p => p.addr == a)).map (fun p => (p.score, p.time))

def Book.add (b : Book) (a : Bytes) : Book := fun x =>
  if x = a then (match b a with | some v => some v | none => some (0, 0)) else b x

def Book.score (b : Book) (a : Bytes) (d : Int) (now : Nat) : Book := fun x =>
  if x = a then (b a).map (fun v => (wrap32 (v.1 + d), now)) else b x

def Book.time (b : Book) (a : Bytes) (now : Nat) : Book := fun x =>
  if x = a then (b a).map (fun v => (v.1, now)) else b x

theorem absList_updLast (l l' : List Peer) (a : Bytes) (f : Peer → Peer)
    (hf : ∀ p, (f p).addr = p.addr) (hn : (l.map (·.addr)).Nodup) (h : updLast l a f = some l') :
    absList l' = fun x => if x = a then (absList l a).map (fun _ =>
        match l.find? (fun p => p.addr == a) with
        | some p => ((f p).score, (f p).time)
        | none => (0, 0)) else absList l x := by
  induction l generalizing l' with
  | nil => simp [updLast] at h
  | cons p ps ih =>
    simp only [List.map_cons, List.nodup_cons] at hn
    simp only [updLast] at h
    split at h
    · rename_i ps' hps'
      simp only [Option.some.injEq] at h
      subst h
      -- `a` is in `ps`, hence not the head's address
      have ha : a ∈ ps.map (·.addr) := by
        have : hasAddr ps a ≠ false := by
          intro hc; rw [← updLast_none_iff ps a f] at hc; rw [hc] at hps'; cases hps'
        have h2 : ¬ (a ∉ ps.map (·.addr)) := fun hc => this ((hasAddr_false_iff _ _).mpr hc)
        exact Classical.not_not.mp h2
      have hpa : p.addr ≠ a := fun hc => hn.1 (hc ▸ ha)
      have ih' := ih ps' hn.2 hps'
      funext x
      have hx := congrFun ih' x
      unfold absList at hx ⊢
      by_cases hxp : p.addr = x
      · have hxa : x ≠ a := fun hc => hpa (hxp.trans hc)
        simp [List.find?_cons, hxp, hxa]
      · have hb : (p.addr == x) = false := by simpa using hxp
        have hb2 : (p.addr == a) = false := by simpa using hpa
        simp only [List.find?_cons, hb, hb2]
        exact hx
    · split at h
      · rename_i hnone hpa
        simp only [Option.some.injEq] at h
        subst h
        funext x
        unfold absList
        by_cases hxa : x = a
        · subst hxa
          simp [List.find?_cons, hpa, hf]
        · have hb : (p.addr == x) = false := by
            simp only [beq_eq_false_iff_ne, ne_eq]; intro hc; exact hxa (hc ▸ hpa)
          have hb' : ((f p).addr == x) = false := by rw [hf]; exact hb
          simp [List.find?_cons, hb, hb', hxa]
      · cases h

/-- **C20, sentence 2 (a peer's score is the sum of the deltas applied to it).** `UpdateScore`
    refines the abstract book's `score`: the addressed peer's score becomes the (int32-wrapped) sum,
    every other peer is untouched. Holds in every duplicate-free state, hence (C20_nodup) after
    every API history. -/
theorem C20_score_refines (s : State) (a : Bytes) (d : Int) (now : Nat)
    (hn : (s.list.map (·.addr)).Nodup) :
    absList (updateScore s a d now).1.list = (absList s.list).score a d now ∧
    ((updateScore s a d now).2 = true ↔ a ∈ s.list.map (·.addr)) := by
  unfold updateScore
  split
  · rename_i l' hl'
    have hmem : a ∈ s.list.map (·.addr) := by
      have : hasAddr s.list a ≠ false := by
        intro hc; rw [← updLast_none_iff s.list a _] at hc; rw [hc] at hl'; cases hl'
      have h2 : ¬ (a ∉ s.list.map (·.addr)) := fun hc => this ((hasAddr_false_iff _ _).mpr hc)
      exact Classical.not_not.mp h2
    refine ⟨?_, by simp [hmem]⟩
    rw [absList_updLast _ _ _ _ (by intro p; rfl) hn hl']
    funext x
    unfold Book.score absList
    by_cases hx : x = a
    · simp only [hx, ↓reduceIte]
      cases hfind : List.find? (fun p => p.addr == a) s.list <;> simp
    · simp [hx]
  · rename_i hnone
    have hno : a ∉ s.list.map (·.addr) := (hasAddr_false_iff _ _).mp ((updLast_none_iff _ _ _).mp hnone)
    refine ⟨?_, by simp [hno]⟩
    funext x
    unfold Book.score
    by_cases hx : x = a
    · subst hx
      have : absList s.list x = none := by
        unfold absList
        rw [Option.map_eq_none_iff, List.find?_eq_none]
        intro p hp hc
        simp only [beq_iff_eq] at hc
        exact hno (List.mem_map.mpr ⟨p, hp, hc⟩)
      simp [this]
    · simp [hx]

/-- sums of deltas compose under the int32 wrap (so n updates give `wrap32 (Σ deltas)`). -/
theorem wrap32_add_wrap32 (x d : Int) : wrap32 (wrap32 x + d) = wrap32 (x + d) := by
  unfold wrap32 toSigned toUnsigned
  have h0 : 0 ≤ x % (2 ^ 32 : Int) := Int.emod_nonneg _ (by decide)
  have hlt : x % (2 ^ 32 : Int) < 2 ^ 32 := Int.emod_lt_of_pos _ (by decide)
  have key : ∀ y : Int, (y - 2 ^ 32 + d) % (2 ^ 32 : Int) = (y + d) % (2 ^ 32 : Int) := by
    intro y
    have : y - 2 ^ 32 + d = (y + d) + (2 ^ 32 : Int) * (-1) := by omega
    rw [this, Int.add_mul_emod_self_left]
  have key2 : (x % (2 ^ 32 : Int) + d) % (2 ^ 32 : Int) = (x + d) % (2 ^ 32 : Int) := by
    rw [Int.emod_add_emod]
  have hnat : ((x % (2 ^ 32 : Int)).toNat : Int) = x % (2 ^ 32 : Int) := Int.toNat_of_nonneg h0
  split
  · rw [hnat, key2]
  · rw [hnat, key, key2]

/-- **C20, sentence 3 (Save then Load reproduces every peer's address, score and last-seen time).** -/
theorem C20_save_load (s : State) (hs : Inv s) :
    (load (save s)).2 = .ok ∧ (load (save s)).1.list = s.list := by
  unfold load save
  simp only
  rw [decode_encode s.list hs.wf]
  exact ⟨rfl, rfl⟩

/-- the same, for every state reachable by API histories. -/
theorem C20_save_load_reachable (ops : List Op) (hops : ∀ op ∈ ops, op.wf)
    (hraw : ∀ op ∈ ops, ∀ b, op ≠ .loadRaw b) :
    (run {} (ops ++ [.save, .load])).list = (run {} ops).list := by
  have hs := inv_run {} ops inv_init hops hraw
  simp only [run, List.foldl_append, List.foldl_cons, List.foldl_nil, step]
  exact (C20_save_load _ hs).2

/-- **C20, sentence 3 (a file cut short at any point).** Loading the first `k` bytes of a saved
    file succeeds for `k ≥ 5` and keeps exactly the peers that were fully written before the cut,
    in order (`fullCount` = number of leading records that fit); below 5 bytes it is an error
    return with an empty book. Never a crash. -/
theorem C20_prefix (l : List Peer) (k : Nat) (h : wfList l) :
    (5 ≤ k → decode ((encode l).take k) = (.ok, l.take (fullCount l (k - 5)))) ∧
    (k < 5 → decode ((encode l).take k) = (if k = 0 then .errVersionRead else .errCountRead, [])) :=
  ⟨decode_take l k h, decode_take_short l k⟩

/-- `fullCount` really is "fully written before the cut": record `i` is kept iff the encoding of
    the first `i+1` records fits in the budget. -/
theorem fullCount_spec (l : List Peer) (m i : Nat) :
    i < fullCount l m ↔ i < l.length ∧ (encodePeers (l.take (i + 1))).length ≤ m := by
  induction l generalizing m i with
  | nil => simp [fullCount]
  | cons p ps ih =>
    unfold fullCount
    by_cases hfit : (encodePeer p).length ≤ m
    · simp only [hfit, ↓reduceIte, List.length_cons, List.take_succ_cons, encodePeers, List.length_append]
      cases i with
      | zero => simp [encodePeers]; omega
      | succ i =>
        have := ih (m - (encodePeer p).length) i
        constructor
        · intro h
          have h' : i < fullCount ps (m - (encodePeer p).length) := by omega
          have := this.mp h'
          omega
        · intro h
          have h' : i < fullCount ps (m - (encodePeer p).length) := this.mpr ⟨by omega, by omega⟩
          omega
    · simp only [hfit, ↓reduceIte, List.length_cons, List.take_succ_cons, encodePeers, List.length_append]
      constructor
      · intro h; omega
      · intro h; omega

/-- **C20, sentence 3 (loading any stored bytes completes without crashing).** For every byte
    string the model of the repaired `Load` returns `ok` or an error class, never `panic`.
    (True by construction of the model; what ties it to the code is the `peers` correspondence on
    arbitrary and mutated files. Before the repair the Go code aborted on a negative count or
    address length — see known_findings.txt.) -/
theorem C20_load_total (b : Bytes) : (decode b).1 ≠ .panic := by
  unfold decode
  split
  · simp
  · split
    · simp
    · split <;> simp

/-! ### non-vacuity: the hypotheses are met by concrete non-trivial states -/

def exPeers : List Peer :=
  [{ addr := [91, 58, 58, 49, 93], score := -3, time := 1700000000 },
   { addr := [], score := 2147483647, time := 0 },
   { addr := [255, 0, 128], score := -2147483648, time := 4294967295 }]

theorem exPeers_wf : wfList exPeers := by
  intro p hp
  simp only [exPeers, List.mem_cons, List.not_mem_nil, or_false] at hp
  rcases hp with rfl | rfl | rfl <;> (unfold Peer.wf inI32; simp)

example : decode (encode exPeers) = (.ok, exPeers) := decode_encode _ exPeers_wf
example : (decode ((encode exPeers).take 40)).2 = exPeers.take 2 := by
  rw [decode_take _ 40 exPeers_wf (by omega)]; decide
example : (run {} [.add [1], .add [2], .add [1], .score [1] 5 7, .score [1] (-9) 8]).list
    = [{ addr := [1], score := -4, time := 8 }, { addr := [2], score := 0, time := 0 }] := by decide
example : Inv (run {} [.add [1], .add [2], .score [1] 5 7, .save, .clear, .load]) :=
  inv_run _ _ inv_init (by intro op hop; simp at hop; rcases hop with rfl|rfl|rfl|rfl|rfl|rfl <;> simp [Op.wf, inI32])
    (by intro op hop; simp at hop; rcases hop with rfl|rfl|rfl|rfl|rfl|rfl <;> simp)

end BRV.Peers
