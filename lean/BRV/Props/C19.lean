/-
C19 — Header locators are well-formed and let a same-chain peer continue from our tip.

Theorems about `branchLocator` / `locator` / `verifyOnlyLocator` (Model/Locator.lean) for every
repository state, every requested maximum and the split table extracted from the source.
-/
import BRV.Proofs.RepoBasics

namespace BRV.Repo

/-! ### no hash appears twice -/

theorem dedupe_fold_nodup (l acc : List Nat) (h : acc.Nodup) :
    (l.foldl (fun (acc : List Nat) x => if acc.contains x then acc else acc ++ [x]) acc).Nodup := by
  induction l generalizing acc with
  | nil => exact h
  | cons x xs ih =>
    simp only [List.foldl_cons]
    apply ih
    split
    · exact h
    · rename_i hc
      rw [List.nodup_append]
      refine ⟨h, by simp, ?_⟩
      intro a ha b hb
      simp only [List.mem_singleton] at hb
      subst hb
      intro hab; subst hab
      exact hc (by simpa using ha)

theorem dedupe_fold_mem (l acc : List Nat) (x : Nat) :
    x ∈ l.foldl (fun (acc : List Nat) y => if acc.contains y then acc else acc ++ [y]) acc ↔ x ∈ acc ∨ x ∈ l := by
  induction l generalizing acc with
  | nil => simp
  | cons y ys ih =>
    simp only [List.foldl_cons, List.mem_cons]
    rw [ih]
    split
    · rename_i hc
      have hy : y ∈ acc := by simpa using hc
      constructor
      · rintro (h | h)
        · exact Or.inl h
        · exact Or.inr (Or.inr h)
      · rintro (h | h | h)
        · exact Or.inl h
        · exact Or.inl (h ▸ hy)
        · exact Or.inr h
    · simp only [List.mem_append, List.mem_singleton]
      constructor
      · rintro ((h | h) | h)
        · exact Or.inl h
        · exact Or.inr (Or.inl h)
        · exact Or.inr (Or.inr h)
      · rintro (h | h | h)
        · exact Or.inl (Or.inl h)
        · exact Or.inl (Or.inr h)
        · exact Or.inr h

/-- **C19 (no hash appears twice), chain locator.** -/
theorem C19_nodup (r : Repo) (max : Nat) : (locator r max).Nodup := by
  unfold locator removeDuplicateHashes
  exact dedupe_fold_nodup _ [] (by simp)

/-- **C19 (no hash appears twice), verify-only locator, every configuration.** -/
theorem C19_verify_nodup (r : Repo) : (verifyOnlyLocator r).Nodup := by
  unfold verifyOnlyLocator removeDuplicateHashes
  exact dedupe_fold_nodup _ [] (by simp)

/-- de-duplication loses nothing. -/
theorem C19_dedupe_keeps (l : List Nat) (x : Nat) : x ∈ removeDuplicateHashes l ↔ x ∈ l := by
  unfold removeDuplicateHashes
  rw [dedupe_fold_mem]; simp

/-- the verify-only locator of the main-net table extracted from the source: the BCH/BSV fork
    point once, then the BTC fork point. -/
theorem C19_verify_mainnet (r : Repo) (maxDepth : Int) (inv : List Nat) (hc : r.cfg = mainCfg maxDepth inv) :
    verifyOnlyLocator r = [900003, 900001] := by
  unfold verifyOnlyLocator
  rw [hc]
  show removeDuplicateHashes ((sortHH ((match (Facts.requiredSplit.map mkSplit).head? with
      | some s => [(s.height - 1, s.before)]
      | none => []) ++ (sortSplits (Facts.splits.map mkSplit)).map fun s => (s.height - 1, s.before))).map (·.2)) = _
  decide

/-! ### best-chain entries: bounded, newest first, beginning with the tip's parent -/

def chainCount (l : List (HH × Bool)) : Nat := (l.filter (·.2)).length

theorem chainCount_append (a b : List (HH × Bool)) : chainCount (a ++ b) = chainCount a + chainCount b := by
  simp [chainCount, List.filter_append]

theorem chainCount_splits (l : List HH) : chainCount (l.map (fun e => (e, false))) = 0 := by
  induction l with
  | nil => rfl
  | cons x xs ih => simpa [chainCount] using ih

theorem chainCount_le_length (l : List (HH × Bool)) : chainCount l ≤ l.length := by
  unfold chainCount; exact List.length_filter_le _ _

theorem chainCount_single_true (e : HH) : chainCount [(e, true)] = 1 := by simp [chainCount]

/-- the walk stops once the result holds `max` entries: chain entries never exceed `max`
    (for `max ≥ 1`; with `max = 0` the Go loop still emits the first entry). -/
theorem locLoop_chainCount (r : Repo) (bi : Nat) (splits : List Split) (max : Nat) (hmax : 1 ≤ max)
    (fuel : Nat) (height prev delta : Int) (res : List (HH × Bool)) (added : List Nat)
    (h : res.length < max ∨ res = []) :
    chainCount (locLoop r bi splits max fuel height prev delta res added).1 ≤ max := by
  induction fuel generalizing height prev delta res added with
  | zero =>
    simp only [locLoop]
    rcases h with h | h
    · exact Nat.le_trans (chainCount_le_length _) (Nat.le_of_lt h)
    · subst h; simp [chainCount]
  | succ fuel ih =>
    have hcc : chainCount res + 1 ≤ max := by
      rcases h with h1 | h1
      · have := chainCount_le_length res; omega
      · subst h1; simp [chainCount]; omega
    simp only [locLoop]
    generalize (if prev ≠ -1 then splitsBetween splits added height prev else ([], added)) = p
    cases hat : r.at bi height with
    | none => simp only; rw [chainCount_append, chainCount_splits]; omega
    | some d =>
      simp only
      split
      · simp only; rw [chainCount_append, chainCount_append, chainCount_splits, chainCount_single_true]; omega
      · rename_i hlen
        split
        · simp only; rw [chainCount_append, chainCount_append, chainCount_splits, chainCount_single_true]; omega
        · apply ih
          left
          simp only [ge_iff_le, Nat.not_le] at hlen
          exact hlen

theorem tail_chainCount (splits : List (Split × Nat)) (added : List Nat) (h : Int) (acc : List (HH × Bool))
    (ha : chainCount acc = 0) :
    chainCount (splits.foldl (fun (acc : List (HH × Bool)) (x : Split × Nat) =>
      if !added.contains x.2 && h > x.1.height then acc ++ [((x.1.height, x.1.before), false)] else acc) acc) = 0 := by
  induction splits generalizing acc with
  | nil => exact ha
  | cons x xs ih =>
    simp only [List.foldl_cons]
    apply ih
    split
    · rw [chainCount_append, ha]; simp [chainCount]
    · exact ha

/-- **C19 (their number does not exceed the requested maximum).** The hashes the back-off walk
    takes from the best chain are at most `max` (side-branch bases and split fork points are extra). -/
theorem C19_bounded (r : Repo) (bi : Nat) (splits : List Split) (delta : Int) (max : Nat) (hmax : 1 ≤ max) :
    chainCount (branchLocatorTagged r bi splits delta max) ≤ max := by
  unfold branchLocatorTagged
  simp only
  split
  · split
    · simp [chainCount]; omega
    · simp [chainCount]
  · have h1 := locLoop_chainCount r bi splits max hmax ((r.br bi).height.toNat + 2) ((r.br bi).height - 1) (-1) delta [] [] (Or.inr rfl)
    generalize locLoop r bi splits max ((r.br bi).height.toNat + 2) ((r.br bi).height - 1) (-1) delta [] [] = L at h1 ⊢
    rw [chainCount_append, tail_chainCount _ _ _ [] rfl]
    omega

/-- **C19 (genesis alone at height 0).** -/
theorem C19_genesis_alone (r : Repo) (bi : Nat) (splits : List Split) (delta : Int) (max : Nat) (g : HData)
    (hh : (r.br bi).height = 0) (hl : (r.br bi).last? = some g) :
    branchLocator r bi splits delta max = [(0, g.hdr.id)] := by
  unfold branchLocator branchLocatorTagged
  simp [hh, hl]

theorem head?_append_ne_nil {α : Type} (a b : List α) (h : a ≠ []) : (a ++ b).head? = a.head? := by
  cases a with
  | nil => exact absurd rfl h
  | cons x xs => rfl

/-- the walk only appends: an entry at the head of the accumulated result stays at the head. -/
theorem locLoop_head (r : Repo) (bi : Nat) (splits : List Split) (max : Nat) (fuel : Nat)
    (height prev delta : Int) (res : List (HH × Bool)) (added : List Nat) (x : HH × Bool)
    (hx : res.head? = some x) : (locLoop r bi splits max fuel height prev delta res added).1.head? = some x := by
  induction fuel generalizing height prev delta res added with
  | zero => simpa [locLoop] using hx
  | succ fuel ih =>
    have hne : res ≠ [] := by intro hc; subst hc; simp at hx
    simp only [locLoop]
    generalize (if prev ≠ -1 then splitsBetween splits added height prev else ([], added)) = p
    cases hat : r.at bi height with
    | none => simp only; rw [head?_append_ne_nil _ _ hne]; exact hx
    | some d =>
      simp only
      split
      · simp only; rw [List.append_assoc, head?_append_ne_nil _ _ hne]; exact hx
      · split
        · simp only; rw [List.append_assoc, head?_append_ne_nil _ _ hne]; exact hx
        · apply ih
          rw [List.append_assoc, head?_append_ne_nil _ _ hne]; exact hx

/-- **C19 (best-chain hashes begin with the tip's parent).** Above height 0, when the header below
    the tip is held, the first entry produced is that header — so a peer on our chain replies
    starting with our tip. -/
theorem C19_first_is_parent (r : Repo) (bi : Nat) (splits : List Split) (delta : Int) (max : Nat) (d : HData)
    (hh : (r.br bi).height ≠ 0) (hp : r.at bi ((r.br bi).height - 1) = some d) :
    (branchLocatorTagged r bi splits delta max).head? = some ((((r.br bi).height - 1), d.hdr.id), true) := by
  unfold branchLocatorTagged
  simp only [hh, ↓reduceIte]
  have hf : ((r.br bi).height.toNat + 2) = ((r.br bi).height.toNat + 1) + 1 := by omega
  rw [hf]
  have key : ∀ fuel : Nat, (locLoop r bi splits max (fuel + 1) ((r.br bi).height - 1) (-1) delta [] []).1.head?
      = some ((((r.br bi).height - 1), d.hdr.id), true) := by
    intro fuel
    simp only [locLoop, ne_eq, not_true_eq_false, ↓reduceIte, List.map_nil, List.append_nil, hp, List.nil_append]
    split
    · rfl
    · split
      · rfl
      · apply locLoop_head; rfl
  have key := key ((r.br bi).height.toNat + 1)
  generalize locLoop r bi splits max (((r.br bi).height.toNat + 1) + 1) ((r.br bi).height - 1) (-1) delta [] [] = L at key ⊢
  cases hL : L.1 with
  | nil => rw [hL] at key; simp at key
  | cons x xs => rw [hL] at key; simpa using key

/-- the literals used on the wire: back-off starts at 5, the initial request asks for 10, follow-ups for 3. -/
theorem C19_wire_parameters : Facts.locatorDelta = 5 ∧ Facts.locatorMaxInitial = 10 ∧ Facts.locatorMaxFollow = 3 := by decide

/-! ### non-vacuity -/

example : verifyOnlyLocator { cfg := mainCfg 144 [] } = [900003, 900001] := C19_verify_mainnet _ 144 [] rfl
example : removeDuplicateHashes [7, 3, 7, 3, 1] = [7, 3, 1] := by decide

/-! ### membership: what a locator can contain -/

/-- what an entry of a branch locator is: a header the branch's chain holds at that height (or the tip of a
    height-0 branch), or a fork point of the split table. -/
def GoodEntry (r : Repo) (bi : Nat) (splits : List Split) : HH × Bool → Prop
  | ((h, id), true) => (∃ d, r.at bi h = some d ∧ d.hdr.id = id) ∨
      (h = 0 ∧ (r.br bi).height = 0 ∧ ∃ l, (r.br bi).last? = some l ∧ l.hdr.id = id)
  | ((h, id), false) => ∃ s ∈ splits, s.height = h ∧ s.before = id

theorem splitsBetween_mem (splits : List Split) (added : List Nat) (height prevHeight : Int) :
    ∀ e ∈ (splitsBetween splits added height prevHeight).1, ∃ s ∈ splits, s.height = e.1 ∧ s.before = e.2 := by
  unfold splitsBetween
  have : ∀ (l : List (Split × Nat)) (acc : List HH × List Nat),
      (∀ x ∈ l, x.1 ∈ splits) → (∀ e ∈ acc.1, ∃ s ∈ splits, s.height = e.1 ∧ s.before = e.2) →
      ∀ e ∈ (l.foldl (fun (acc : List HH × List Nat) (x : Split × Nat) =>
        if !acc.2.contains x.2 && height < x.1.height && prevHeight ≥ x.1.height then (acc.1 ++ [(x.1.height, x.1.before)], acc.2 ++ [x.2])
        else acc) acc).1, ∃ s ∈ splits, s.height = e.1 ∧ s.before = e.2 := by
    intro l
    induction l with
    | nil => intro acc _ h; exact h
    | cons x rest ih =>
      intro acc hl hacc
      simp only [List.foldl_cons]
      apply ih _ (fun y hy => hl y (List.mem_cons_of_mem _ hy))
      split
      · intro e he
        simp only [List.mem_append, List.mem_singleton] at he
        rcases he with he | rfl
        · exact hacc e he
        · exact ⟨x.1, hl x (List.mem_cons_self ..), rfl, rfl⟩
      · exact hacc
  intro e he
  exact this splits.zipIdx ([], added) (fun x hx => List.fst_mem_of_mem_zipIdx hx) (by intro e he; cases he) e he

theorem locLoop_good (r : Repo) (bi : Nat) (splits : List Split) (max : Nat) :
    ∀ (fuel : Nat) (height prevHeight delta : Int) (res : List (HH × Bool)) (added : List Nat),
      (∀ e ∈ res, GoodEntry r bi splits e) →
      ∀ e ∈ (locLoop r bi splits max fuel height prevHeight delta res added).1, GoodEntry r bi splits e := by
  intro fuel
  induction fuel with
  | zero => intro height prevHeight delta res added h; simpa [locLoop] using h
  | succ fuel ih =>
    intro height prevHeight delta res added hres
    unfold locLoop
    generalize hp : (if prevHeight ≠ -1 then splitsBetween splits added height prevHeight else ([], added)) = p
    have hp1 : ∀ x ∈ p.1, ∃ s ∈ splits, s.height = x.1 ∧ s.before = x.2 := by
      rw [← hp]
      split
      · exact splitsBetween_mem splits added height prevHeight
      · intro x hx; cases hx
    obtain ⟨ins, added'⟩ := p
    simp only
    have hins : ∀ e ∈ res ++ ins.map (fun e => (e, false)), GoodEntry r bi splits e := by
      intro e he
      simp only [List.mem_append, List.mem_map] at he
      rcases he with he | ⟨x, hx, rfl⟩
      · exact hres e he
      · obtain ⟨s, hs, h1, h2⟩ := hp1 x hx
        exact ⟨s, hs, h1, h2⟩
    cases hat : r.at bi height with
    | none => exact hins
    | some d =>
      simp only
      have hnew : ∀ e ∈ (res ++ ins.map (fun e => (e, false))) ++ [((height, d.hdr.id), true)], GoodEntry r bi splits e := by
        intro e he
        simp only [List.mem_append, List.mem_singleton] at he
        rcases he with he | rfl
        · exact hins e (by simpa using he)
        · exact Or.inl ⟨d, hat, rfl⟩
      split
      · exact hnew
      · split
        · exact hnew
        · exact ih _ _ _ _ _ hnew

/-- **C19 (membership, branch locator), every state**: every entry is a header of the branch's chain at the
    stated height, or a fork point of the split table. -/
theorem C19_branch_membership (r : Repo) (bi : Nat) (splits : List Split) (delta : Int) (max : Nat) :
    ∀ e ∈ branchLocatorTagged r bi splits delta max, GoodEntry r bi splits e := by
  unfold branchLocatorTagged
  simp only
  split
  · rename_i h0
    cases hl : (r.br bi).last? with
    | none => intro e he; cases he
    | some l =>
      intro e he
      simp only [List.mem_singleton] at he
      subst he
      exact Or.inr ⟨rfl, h0, l, hl, rfl⟩
  · intro e he
    simp only [List.mem_append] at he
    rcases he with he | he
    · exact locLoop_good r bi splits max _ _ _ _ [] [] (by intro e he; cases he) e he
    · -- the split fork points below the walk
      have : ∀ (l : List (Split × Nat)) (acc : List (HH × Bool)) (added : List Nat) (hh : Int),
          (∀ x ∈ l, x.1 ∈ splits) → (∀ e ∈ acc, GoodEntry r bi splits e) →
          ∀ e ∈ l.foldl (fun (acc : List (HH × Bool)) (x : Split × Nat) =>
            if !added.contains x.2 && hh > x.1.height then acc ++ [((x.1.height, x.1.before), false)] else acc) acc,
            GoodEntry r bi splits e := by
        intro l
        induction l with
        | nil => intro acc _ _ _ h; exact h
        | cons x rest ih =>
          intro acc added hh hl hacc
          simp only [List.foldl_cons]
          apply ih _ _ _ (fun y hy => hl y (List.mem_cons_of_mem _ hy))
          split
          · intro e he
            simp only [List.mem_append, List.mem_singleton] at he
            rcases he with he | rfl
            · exact hacc e he
            · exact ⟨x.1, hl x (List.mem_cons_self ..), rfl, rfl⟩
          · exact hacc
      exact this splits.zipIdx [] _ _ (fun x hx => List.fst_mem_of_mem_zipIdx hx) (by intro e he; cases he) e he

theorem sortHH_mem (l : List HH) (x : HH) : x ∈ sortHH l ↔ x ∈ l := by
  unfold sortHH
  have hins : ∀ (y : HH) (acc : List HH) (z : HH), z ∈ sortHH.ins y acc ↔ z = y ∨ z ∈ acc := by
    intro y acc
    induction acc with
    | nil => intro z; simp [sortHH.ins]
    | cons a rest ih =>
      intro z
      simp only [sortHH.ins]
      split
      · simp
      · simp only [List.mem_cons, ih z]
        constructor
        · rintro (h | h | h)
          · exact Or.inr (Or.inl h)
          · exact Or.inl h
          · exact Or.inr (Or.inr h)
        · rintro (h | h | h)
          · exact Or.inr (Or.inl h)
          · exact Or.inl h
          · exact Or.inr (Or.inr h)
  have : ∀ (l acc : List HH), x ∈ l.foldl (fun acc y => sortHH.ins y acc) acc ↔ x ∈ l ∨ x ∈ acc := by
    intro l
    induction l with
    | nil => intro acc; simp
    | cons a rest ih =>
      intro acc
      simp only [List.foldl_cons, ih, hins, List.mem_cons]
      constructor
      · rintro (h | h | h)
        · exact Or.inl (Or.inr h)
        · exact Or.inl (Or.inl h)
        · exact Or.inr h
      · rintro ((h | h) | h)
        · exact Or.inr (Or.inl h)
        · exact Or.inl h
        · exact Or.inr (Or.inr h)
  rw [this]; simp

/-- **C19 (membership), every state and every maximum**: every hash of the locator is a header the best
    chain holds at some height (or the tip of a height-0 chain), a fork point of the configured split table,
    or the lowest held header of a tracked side branch. -/
theorem C19_membership (r : Repo) (max : Nat) (x : Nat) (hx : x ∈ locator r max) :
    (∃ h d, r.at r.longest h = some d ∧ d.hdr.id = x) ∨
    ((r.br r.longest).height = 0 ∧ ∃ l, (r.br r.longest).last? = some l ∧ l.hdr.id = x) ∨
    (∃ s ∈ r.cfg.splits, s.before = x) ∨
    (∃ bi ∈ r.branches, bi ≠ r.longest ∧ ∃ d, r.at bi (r.br bi).prunedLowest = some d ∧ d.hdr.id = x) := by
  unfold locator at hx
  rw [C19_dedupe_keeps] at hx
  obtain ⟨e, he, rfl⟩ := List.mem_map.mp hx
  rw [sortHH_mem] at he
  simp only [List.mem_append] at he
  rcases he with he | he
  · unfold branchLocator at he
    obtain ⟨t, ht, rfl⟩ := List.mem_map.mp he
    have hg := C19_branch_membership r r.longest r.cfg.splits _ max t ht
    obtain ⟨⟨h, id⟩, tag⟩ := t
    cases tag with
    | true =>
      rcases hg with ⟨d, hd, hid⟩ | ⟨_, h0, l, hl, hid⟩
      · exact Or.inl ⟨h, d, hd, hid⟩
      · exact Or.inr (Or.inl ⟨h0, l, hl, hid⟩)
    | false =>
      obtain ⟨s, hs, _, hb⟩ := hg
      exact Or.inr (Or.inr (Or.inl ⟨s, hs, hb⟩))
  · obtain ⟨bi, hbi, hfm⟩ := List.mem_filterMap.mp he
    split at hfm
    · cases hfm
    · rename_i hne
      cases hat : r.at bi (r.br bi).prunedLowest with
      | none => rw [hat] at hfm; cases hfm
      | some d =>
        rw [hat] at hfm
        simp only [Option.map_some, Option.some.injEq] at hfm
        subst hfm
        exact Or.inr (Or.inr (Or.inr ⟨bi, hbi, hne, d, hat, rfl⟩))

/-! ### newest first -/

/-- the heights of the chain entries of a tagged locator, in order. -/
def chainHeights (l : List (HH × Bool)) : List Int := (l.filter (·.2)).map (·.1.1)

theorem chainHeights_append (a b : List (HH × Bool)) : chainHeights (a ++ b) = chainHeights a ++ chainHeights b := by
  simp [chainHeights]

theorem chainHeights_splits (l : List HH) : chainHeights (l.map (fun e => (e, false))) = [] := by
  induction l with
  | nil => rfl
  | cons a t ih => simpa [chainHeights, List.filter_cons] using ih

theorem locLoop_desc (r : Repo) (bi : Nat) (splits : List Split) (max : Nat) :
    ∀ (fuel : Nat) (height prevHeight delta : Int) (res : List (HH × Bool)) (added : List Nat), 0 < delta →
      (∀ x ∈ chainHeights res, height < x) → (chainHeights res).Pairwise (· > ·) →
      (chainHeights (locLoop r bi splits max fuel height prevHeight delta res added).1).Pairwise (· > ·) := by
  intro fuel
  induction fuel with
  | zero => intro height prevHeight delta res added _ _ h; simpa [locLoop] using h
  | succ fuel ih =>
    intro height prevHeight delta res added hd habove hpw
    unfold locLoop
    generalize (if prevHeight ≠ -1 then splitsBetween splits added height prevHeight else ([], added)) = p
    obtain ⟨ins, added'⟩ := p
    simp only
    have h1 : chainHeights (res ++ ins.map (fun e => (e, false))) = chainHeights res := by
      rw [chainHeights_append, chainHeights_splits, List.append_nil]
    cases hat : r.at bi height with
    | none => simp only; rw [h1]; exact hpw
    | some d =>
      simp only
      have h2 : chainHeights ((res ++ ins.map (fun e => (e, false))) ++ [((height, d.hdr.id), true)]) = chainHeights res ++ [height] := by
        rw [chainHeights_append, h1]; rfl
      have hpw2 : (chainHeights res ++ [height]).Pairwise (· > ·) := by
        rw [List.pairwise_append]
        exact ⟨hpw, by simp, fun a ha b hb => by simp at hb; subst hb; exact habove a ha⟩
      split
      · rw [h2]; exact hpw2
      · split
        · rw [h2]; exact hpw2
        · apply ih _ _ _ _ _ (by omega)
          · rw [h2]
            intro x hx
            simp only [List.mem_append, List.mem_singleton] at hx
            rcases hx with hx | rfl
            · have := habove x hx; omega
            · omega
          · rw [h2]; exact hpw2

/-- **C19 (newest first)**: the best-chain hashes of a branch locator come in strictly descending height, for
    every state and every positive step. -/
theorem C19_newest_first (r : Repo) (bi : Nat) (splits : List Split) (delta : Int) (hd : 0 < delta) (max : Nat) :
    (chainHeights (branchLocatorTagged r bi splits delta max)).Pairwise (· > ·) := by
  unfold branchLocatorTagged
  simp only
  split
  · cases (r.br bi).last? with
    | none => simp [chainHeights]
    | some l => simp [chainHeights]
  · rw [chainHeights_append]
    have htail : ∀ (l : List (Split × Nat)) (acc : List (HH × Bool)) (added : List Nat) (hh : Int), chainHeights acc = [] →
        chainHeights (l.foldl (fun (acc : List (HH × Bool)) (x : Split × Nat) =>
          if !added.contains x.2 && hh > x.1.height then acc ++ [((x.1.height, x.1.before), false)] else acc) acc) = [] := by
      intro l
      induction l with
      | nil => intro acc _ _ h; exact h
      | cons x rest ih =>
        intro acc added hh h
        simp only [List.foldl_cons]
        apply ih
        split
        · rw [chainHeights_append, h]; rfl
        · exact h
    have ht := htail splits.zipIdx [] (locLoop r bi splits max ((r.br bi).height.toNat + 2) ((r.br bi).height - 1) (-1) delta [] []).2.1
      (locLoop r bi splits max ((r.br bi).height.toNat + 2) ((r.br bi).height - 1) (-1) delta [] []).2.2 rfl
    rw [show chainHeights _ = [] from ht, List.append_nil]
    exact locLoop_desc r bi splits max _ _ _ _ [] [] hd (by intro x hx; cases hx) List.Pairwise.nil

end BRV.Repo
