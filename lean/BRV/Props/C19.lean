/-
C19 — Header locators are well-formed and let a same-chain peer continue from our tip.

Theorems about `branchLocator` / `locator` / `verifyOnlyLocator` (Model/Locator.lean) for every
repository state, every requested maximum and the split table extracted from the source.
-/
import BRV.Proofs.RepoBasics

namespace BRV.Repo

/-! ### no hash appears twice -/

theorem dedupe_fold_nodup (l acc : List Nat) (h : acc.Nodup) :
    (l.foldl (fun (acc : List Nat) x => if acc.contains x then acc else acc ++ [x]) acc).Nodup := by
  induction l generalizing acc with
  | nil => exact h
  | cons x xs ih =>
    simp only [List.foldl_cons]
    apply ih
    split
    · exact h
    · rename_i hc
      rw [List.nodup_append]
      refine ⟨h, by simp, ?_⟩
      intro a ha b hb
      simp only [List.mem_singleton] at hb
      subst hb
      intro hab; subst hab
      exact hc (by simpa using ha)

theorem dedupe_fold_mem (l acc : List Nat) (x : Nat) :
    x ∈ l.foldl (fun (acc : List Nat) y => if acc.contains y then acc else acc ++ [y]) acc ↔ x ∈ acc ∨ x ∈ l := by
  induction l generalizing acc with
  | nil => simp
  | cons y ys ih =>
    simp only [List.foldl_cons, List.mem_cons]
    rw [ih]
    split
    · rename_i hc
      have hy : y ∈ acc := by simpa using hc
      constructor
      · rintro (h | h)
        · exact Or.inl h
        · exact Or.inr (Or.inr h)
      · rintro (h | h | h)
        · exact Or.inl h
        · exact Or.inl (h ▸ hy)
        · exact Or.inr h
    · simp only [List.mem_append, List.mem_singleton]
      constructor
      · rintro ((h | h) | h)
        · exact Or.inl h
        · exact Or.inr (Or.inl h)
        · exact Or.inr (Or.inr h)
      · rintro (h | h | h)
        · exact Or.inl (Or.inl h)
        · exact Or.inl (Or.inr h)
        · exact Or.inr h

/-- **C19 (no hash appears twice), chain locator.** -/
theorem C19_nodup (r : Repo) (max : Nat) : (locator r max).Nodup := by
  unfold locator removeDuplicateHashes
  exact dedupe_fold_nodup _ [] (by simp)

/-- **C19 (no hash appears twice), verify-only locator, every configuration.** -/
theorem C19_verify_nodup (r : Repo) : (verifyOnlyLocator r).Nodup := by
  unfold verifyOnlyLocator removeDuplicateHashes
  exact dedupe_fold_nodup _ [] (by simp)

/-- de-duplication loses nothing. -/
theorem C19_dedupe_keeps (l : List Nat) (x : Nat) : x ∈ removeDuplicateHashes l ↔ x ∈ l := by
  unfold removeDuplicateHashes
  rw [dedupe_fold_mem]; simp

/-- the verify-only locator of the main-net table extracted from the source: the BCH/BSV fork
    point once, then the BTC fork point. -/
theorem C19_verify_mainnet (r : Repo) (maxDepth : Int) (inv : List Nat) (hc : r.cfg = mainCfg maxDepth inv) :
    verifyOnlyLocator r = [900003, 900001] := by
  unfold verifyOnlyLocator
  rw [hc]
  show removeDuplicateHashes ((sortHH ((match (Facts.requiredSplit.map mkSplit).head? with
      | some s => [(s.height - 1, s.before)]
      | none => []) ++ (sortSplits (Facts.splits.map mkSplit)).map fun s => (s.height - 1, s.before))).map (·.2)) = _
  decide

/-! ### best-chain entries: bounded, newest first, beginning with the tip's parent -/

def chainCount (l : List (HH × Bool)) : Nat := (l.filter (·.2)).length

theorem chainCount_append (a b : List (HH × Bool)) : chainCount (a ++ b) = chainCount a + chainCount b := by
  simp [chainCount, List.filter_append]

theorem chainCount_splits (l : List HH) : chainCount (l.map (fun e => (e, false))) = 0 := by
  induction l with
  | nil => rfl
  | cons x xs ih => simpa [chainCount] using ih

theorem chainCount_le_length (l : List (HH × Bool)) : chainCount l ≤ l.length := by
  unfold chainCount; exact List.length_filter_le _ _

theorem chainCount_single_true (e : HH) : chainCount [(e, true)] = 1 := by simp [chainCount]

/-- the walk stops once the result holds `max` entries: chain entries never exceed `max`
    (for `max ≥ 1`; with `max = 0` the Go loop still emits the first entry). -/
theorem locLoop_chainCount (r : Repo) (bi : Nat) (splits : List Split) (max : Nat) (hmax : 1 ≤ max)
    (fuel : Nat) (height prev delta : Int) (res : List (HH × Bool)) (added : List Nat)
    (h : res.length < max ∨ res = []) :
    chainCount (locLoop r bi splits max fuel height prev delta res added).1 ≤ max := by
  induction fuel generalizing height prev delta res added with
  | zero =>
    simp only [locLoop]
    rcases h with h | h
    · exact Nat.le_trans (chainCount_le_length _) (Nat.le_of_lt h)
    · subst h; simp [chainCount]
  | succ fuel ih =>
    have hcc : chainCount res + 1 ≤ max := by
      rcases h with h1 | h1
      · have := chainCount_le_length res; omega
      · subst h1; simp [chainCount]; omega
    simp only [locLoop]
    generalize (if prev ≠ -1 then splitsBetween splits added height prev else ([], added)) = p
    cases hat : r.at bi height with
    | none => simp only; rw [chainCount_append, chainCount_splits]; omega
    | some d =>
      simp only
      split
      · simp only; rw [chainCount_append, chainCount_append, chainCount_splits, chainCount_single_true]; omega
      · rename_i hlen
        split
        · simp only; rw [chainCount_append, chainCount_append, chainCount_splits, chainCount_single_true]; omega
        · apply ih
          left
          simp only [ge_iff_le, Nat.not_le] at hlen
          exact hlen

theorem tail_chainCount (splits : List (Split × Nat)) (added : List Nat) (h : Int) (acc : List (HH × Bool))
    (ha : chainCount acc = 0) :
    chainCount (splits.foldl (fun (acc : List (HH × Bool)) (x : Split × Nat) =>
      if !added.contains x.2 && h > x.1.height then acc ++ [((x.1.height, x.1.before), false)] else acc) acc) = 0 := by
  induction splits generalizing acc with
  | nil => exact ha
  | cons x xs ih =>
    simp only [List.foldl_cons]
    apply ih
    split
    · rw [chainCount_append, ha]; simp [chainCount]
    · exact ha

/-- **C19 (their number does not exceed the requested maximum).** The hashes the back-off walk
    takes from the best chain are at most `max` (side-branch bases and split fork points are extra). -/
theorem C19_bounded (r : Repo) (bi : Nat) (splits : List Split) (delta : Int) (max : Nat) (hmax : 1 ≤ max) :
    chainCount (branchLocatorTagged r bi splits delta max) ≤ max := by
  unfold branchLocatorTagged
  simp only
  split
  · split
    · simp [chainCount]; omega
    · simp [chainCount]
  · have h1 := locLoop_chainCount r bi splits max hmax ((r.br bi).height.toNat + 2) ((r.br bi).height - 1) (-1) delta [] [] (Or.inr rfl)
    generalize locLoop r bi splits max ((r.br bi).height.toNat + 2) ((r.br bi).height - 1) (-1) delta [] [] = L at h1 ⊢
    rw [chainCount_append, tail_chainCount _ _ _ [] rfl]
    omega

/-- **C19 (genesis alone at height 0).** -/
theorem C19_genesis_alone (r : Repo) (bi : Nat) (splits : List Split) (delta : Int) (max : Nat) (g : HData)
    (hh : (r.br bi).height = 0) (hl : (r.br bi).last? = some g) :
    branchLocator r bi splits delta max = [(0, g.hdr.id)] := by
  unfold branchLocator branchLocatorTagged
  simp [hh, hl]

theorem head?_append_ne_nil {α : Type} (a b : List α) (h : a ≠ []) : (a ++ b).head? = a.head? := by
  cases a with
  | nil => exact absurd rfl h
  | cons x xs => rfl

/-- the walk only appends: an entry at the head of the accumulated result stays at the head. -/
theorem locLoop_head (r : Repo) (bi : Nat) (splits : List Split) (max : Nat) (fuel : Nat)
    (height prev delta : Int) (res : List (HH × Bool)) (added : List Nat) (x : HH × Bool)
    (hx : res.head? = some x) : (locLoop r bi splits max fuel height prev delta res added).1.head? = some x := by
  induction fuel generalizing height prev delta res added with
  | zero => simpa [locLoop] using hx
  | succ fuel ih =>
    have hne : res ≠ [] := by intro hc; subst hc; simp at hx
    simp only [locLoop]
    generalize (if prev ≠ -1 then splitsBetween splits added height prev else ([], added)) = p
    cases hat : r.at bi height with
    | none => simp only; rw [head?_append_ne_nil _ _ hne]; exact hx
    | some d =>
      simp only
      split
      · simp only; rw [List.append_assoc, head?_append_ne_nil _ _ hne]; exact hx
      · split
        · simp only; rw [List.append_assoc, head?_append_ne_nil _ _ hne]; exact hx
        · apply ih
          rw [List.append_assoc, head?_append_ne_nil _ _ hne]; exact hx

/-- **C19 (best-chain hashes begin with the tip's parent).** Above height 0, when the header below
    the tip is held, the first entry produced is that header — so a peer on our chain replies
    starting with our tip. -/
theorem C19_first_is_parent (r : Repo) (bi : Nat) (splits : List Split) (delta : Int) (max : Nat) (d : HData)
    (hh : (r.br bi).height ≠ 0) (hp : r.at bi ((r.br bi).height - 1) = some d) :
    (branchLocatorTagged r bi splits delta max).head? = some ((((r.br bi).height - 1), d.hdr.id), true) := by
  unfold branchLocatorTagged
  simp only [hh, ↓reduceIte]
  have hf : ((r.br bi).height.toNat + 2) = ((r.br bi).height.toNat + 1) + 1 := by omega
  rw [hf]
  have key : ∀ fuel : Nat, (locLoop r bi splits max (fuel + 1) ((r.br bi).height - 1) (-1) delta [] []).1.head?
      = some ((((r.br bi).height - 1), d.hdr.id), true) := by
    intro fuel
    simp only [locLoop, ne_eq, not_true_eq_false, ↓reduceIte, List.map_nil, List.append_nil, hp, List.nil_append]
    split
    · rfl
    · split
      · rfl
      · apply locLoop_head; rfl
  have key := key ((r.br bi).height.toNat + 1)
  generalize locLoop r bi splits max (((r.br bi).height.toNat + 1) + 1) ((r.br bi).height - 1) (-1) delta [] [] = L at key ⊢
  cases hL : L.1 with
  | nil => rw [hL] at key; simp at key
  | cons x xs => rw [hL] at key; simpa using key

/-- the literals used on the wire: back-off starts at 5, the initial request asks for 10, follow-ups for 3. -/
theorem C19_wire_parameters : Facts.locatorDelta = 5 ∧ Facts.locatorMaxInitial = 10 ∧ Facts.locatorMaxFollow = 3 := by decide

/-! ### non-vacuity -/

example : verifyOnlyLocator { cfg := mainCfg 144 [] } = [900003, 900001] := C19_verify_mainnet _ 144 [] rfl
example : removeDuplicateHashes [7, 3, 7, 3, 1] = [7, 3, 1] := by decide

end BRV.Repo
