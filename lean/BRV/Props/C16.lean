/-
C16 — Block download requests always terminate, exactly once, under every interleaving.

Part 1 (this section `BRV.BlockDl`): the single downloader (`BlockDownloader`: Run / HandleBlock /
Cancel / Stop / interrupt). All theorems quantify over `Reach s`: every state reachable from a fresh
downloader by ANY finite sequence of model transitions (any interleaving of the goroutines at
statement granularity, any number of Cancel/Stop calls, any canceller answers, any tx stream).
They follow from the inductive invariant `Inv` (Proofs/BlockDlInv.lean) proved per transition in
Proofs/BlockDlSteps.lean — not from a bounded search.

Assumptions of the model (named in checks/C16.py): `HandleBlock` is called at most once per downloader;
`Run` is called once; a `stateLock` critical section is atomic; channels are FIFO with the extracted
capacities.

Part 2 (`BRV.BlockMgr`): the manager (request queue, downloader registry, terminal signals).
-/
import BRV.Proofs.BlockDlSteps
import BRV.Proofs.BlockDlLive
import BRV.Proofs.BlockDlMgrInv

namespace BRV.BlockDl

/-! ## no send on `Started` / `Complete` ever blocks -/

/-- **C16 (nothing stays blocked on the signalling channels), core.** In every reachable state no
    transition is a send on a full channel: neither the handler's two sends, nor the sends of any
    `Cancel`/`Stop` call, nor those of `Run`'s own `Cancel`. The capacities are the ones extracted
    from the source (`Facts.startedCap`, `Facts.completeCap`); with a capacity below 2 this fails. -/
theorem C16_no_send_blocks (s : St) (h : Reach s) (l : Label) : step s l ≠ .blocked :=
  no_block_of_inv s (inv_reach s h) l

/-- the buffers never hold more than their capacity. -/
theorem C16_channels_bounded (s : St) (h : Reach s) :
    s.qS.length ≤ Facts.startedCap ∧ s.qC.length ≤ Facts.completeCap := by
  have hi := inv_reach s h
  have h1 := hi.potS
  have h2 := hi.potC
  have := cap_started
  have := cap_complete
  constructor <;> omega

example : Reach (init true) := Reach.init true

/-- **C16 (after `Run` returned nobody is parked).** Whatever is still owed after `Run` has returned
    — the handler's `Started`/`Complete`, the sends of a `Cancel`/`Stop` call that already left its
    critical section — can be delivered: the corresponding step is enabled, and nobody but `Run`
    ever receives. -/
theorem C16_nothing_parked (s : St) (h : Reach s) (r : Ret) (_hr : s.run = .returned r) :
    (s.hdl = .sendStarted → ∃ s', step s .hSendStarted = .next s') ∧
    (∀ e, s.hdl = .sendComplete e → ∃ s', step s .hSendComplete = .next s') ∧
    (∀ i p, s.callers[i]? = some p → p.isEmpty = false → ∃ s', step s (.callerSend i) = .next s') :=
  sends_enabled_of_inv s (inv_reach s h)

/-- `Run` returns once: `returned` is absorbing and its value never changes. -/
theorem C16_run_returns_once (s s' : St) (l : Label) (r : Ret) (hr : s.run = .returned r)
    (h : step s l = .next s') : s'.run = .returned r :=
  returned_absorbing s s' l r hr h

/-! ## `Run` always makes progress until it returns -/

/-- **C16 (a block download's `Run` returns), timer-free part.** In every reachable state in which
    `Run` has been called and has not returned, one of the following holds:

    1. `Run` itself has an enabled step that is not a timer;
    2. a `Cancel`/`Stop` call that already left its critical section has an enabled send;
    3. the handler is running (it is between two of its own statements, or inside the confirmation
       calls), or it waits for the next transaction / the end of its stream;
    4. nothing at all has happened yet (handler not called, no cancellation): `Run` sits in its
       first select, guarded only by the 2-minute timer;
    5. the handler was never called although the download was cancelled and the canceller claimed
       the handler had already started (or no canceller was installed): `Run` is then released only
       by the 1 h / `cancelWaitLimit` x 10 s timers.

    So under the assumptions "the handler, once called, reaches its end" (3: its stream is closed by
    the node, `ProcessTx`/`ConfirmTx` return), "a canceller that answers *started* has called or will
    call the handler" (5) `Run` never waits for something that cannot come; in cases 4 and 5 it
    returns because "timers eventually fire". No reachable state has `Run` waiting with nothing
    owed to it. -/
theorem C16_run_progress (s : St) (h : Reach s) (hr : s.run ≠ .idle) (hnr : ∀ r, s.run ≠ .returned r) :
    (∃ l s', l.isRunStep = true ∧ step s l = .next s') ∨
    (∃ i s', step s (.callerSend i) = .next s') ∨
    s.hdl.active = true ∨ s.hdl.waitsStream = true ∨
    (s.hdl = .idle ∧ s.run = .phase1 ∧ s.cancelled = false) ∨
    (s.hdl = .idle ∧ s.cancelled = true ∧ (s.promised = true ∨ s.hasCanceller = false)) :=
  run_progress_of_inv s (inv_reach s h) hr hnr

/-- with the timers, `Run` can ALWAYS move until it has returned (the three waiting points each
    have a timer branch). -/
theorem C16_run_never_stuck (s : St) (h : Reach s) (hr : s.run ≠ .idle) (hnr : ∀ r, s.run ≠ .returned r) :
    ∃ l s', (l.isRunStep = true ∨ l = .rTimeout) ∧ step s l = .next s' :=
  run_never_stuck_of_inv s (inv_reach s h) hr hnr

/-- **every schedule is finite.** Every transition other than the arrival of a transaction either
    leaves the state unchanged (a repeated `Cancel`/`Stop`/interrupt) or strictly decreases the
    measure `mu`; so between two transactions only boundedly many steps happen, every schedule with a
    finite stream reaches a state where nothing changes any more, and by `C16_run_never_stuck` `Run`
    has returned there. -/
theorem C16_step_decreases (s s' : St) (l : Label) (h : step s l = .next s')
    (hl : ∀ b, l ≠ .hTx b) : s' = s ∨ mu s' < mu s :=
  step_decreases s s' l h hl

/-! ## what `Run` reports -/

/-- **C16 (a downloader finishes without error only if its block was really handled).** `Run`
    returns nil only if `HandleBlock` ran to its end and returned nil: it passed the hash check, the
    transaction count, the merkle root and its last cancellation check, and the confirmations
    succeeded. (`cancelled` is the only thing anybody else puts on `Complete`.) -/
theorem C16_run_ok_sound (s : St) (h : Reach s) (hr : s.run = .returned (.err .ok)) :
    s.hdl = .done .ok ∧ s.confirmed = true :=
  run_ok_sound s (inv2_reach s h) hr

/-! ## the schedule singled out in DESIGN.md (relevant to C05) -/

/-- `Stop` arrives after the handler sent `Started` but before `Run` consumed it, with the handler
    already past its last cancellation check: `Run` returns "cancelled" although the handler goes on
    to confirm the block and returns nil. No clause of C16 is violated (Run returns, nothing is
    parked, nil is not reported), but the block has been processed and is reported as not
    downloaded, so the manager requests it again (C05: processed twice). -/
def stopRaceTrace : List Label :=
  [.hStart false 0 true, .hSendStarted, .hCheck1, .hEos, .hFinalCheck,   -- handler past its last check
   .run, .stop, .callerSend 0, .callerSend 0,                            -- Stop sees isStarted = false
   .rRecvStarted, .rSetStarted, .rRecvComplete, .rSetComplete,           -- Run returns cancelled
   .hConfirm true, .hSendComplete]                                       -- the handler confirms the block

theorem C16_note_cancelled_yet_confirmed :
    ∃ s, Reach s ∧ s.run = .returned (.err .cancelled) ∧ s.hdl = .done .ok ∧ s.confirmed = true := by
  refine ⟨(runLabels (init true) stopRaceTrace).get (by decide), ?_, by decide, by decide, by decide⟩
  exact reach_runLabels (init true) stopRaceTrace _ (Reach.init true) (by decide)

/-! ### non-vacuity -/

def exTraceA : List Label :=
  [.run, .hStart false 1 true, .hSendStarted, .rRecvStarted, .rSetStarted, .hCheck1, .cancel false, .callerSend 0]
def exTraceB : List Label := [.run, .cancel true, .callerSend 0, .rRecvStarted, .rSetStarted]

/-- a reachable state with `Run` waiting in its second select, a cancelled `Complete` buffered, the
    handler in its loop. -/
example : ∃ s, Reach s ∧ s.run = .phase2 ∧ s.qC.length = 1 ∧ s.hdl = .loop 0 :=
  ⟨(runLabels (init true) exTraceA).get (by decide),
    reach_runLabels (init true) exTraceA _ (Reach.init true) (by decide), by decide, by decide, by decide⟩

/-- case 5 of `C16_run_progress` is reachable: cancelled, canceller said "started", handler never called. -/
example : ∃ s, Reach s ∧ s.run = .phase2 ∧ s.hdl = .idle ∧ s.promised = true ∧ s.qC = [] :=
  ⟨(runLabels (init true) exTraceB).get (by decide),
    reach_runLabels (init true) exTraceB _ (Reach.init true) (by decide), by decide, by decide, by decide, by decide⟩

end BRV.BlockDl


/-! # Part 2: the block manager

`Reach s`: every state of the manager model (Model/BlockMgr.lean) reachable by any interleaving of
AddRequest, abort, interrupt, the manager's own steps (take / first request / tick / select
branches), and — for any number N of registered downloaders — their `Run` returning nil or an
error in any order (`dlReturn`) and their `onDownloaderCompleted` (`dlFinish`). -/
namespace BRV.BlockMgr

/-- **C16 (each queued request ends in exactly one terminal signal — completed or aborted, never
    both, never twice — while the manager keeps running).** `sigs` is the log of everything ever
    delivered on the `complete` channels returned by `AddRequest` (`closed` = the channel was closed,
    `aborted` = `BlockAborted` was sent). (1) no request id occurs twice in it, whatever the signals;
    (2) a signalled request is neither current nor queued any more, so nothing further can be
    delivered for it; (3) while `Run` has not ended, every accepted request is signalled, current or
    still queued: none is lost. (When `Run` ends — interrupt or ErrNodeNotAvailable — the current and
    the flushed requests get no signal: that is the property's proviso.) -/
theorem C16_one_terminal (s : MSt) (h : Reach s) :
    (s.sigs.map (·.1)).Nodup ∧
    (∀ i ∈ sigIds s, i ∉ curIds s.pc ∧ i ∉ queueIds s) ∧
    (alive s → ∀ i, i < s.nextReq → i ∈ sigIds s ∨ i ∈ curIds s.pc ∨ i ∈ queueIds s) := by
  have hi := idInv_reach s h
  have hn := hi.nodup
  simp only [allIds, List.append_assoc] at hn
  rw [List.nodup_append] at hn
  obtain ⟨h1, _, h3⟩ := hn
  refine ⟨h1, ?_, ?_⟩
  · intro i hs
    constructor
    · intro hc; exact h3 i hs i (List.mem_append_left _ hc) rfl
    · intro hq; exact h3 i hs i (List.mem_append_right _ hq) rfl
  · intro ha i hlt
    have := hi.full ha i hlt
    simp only [allIds, List.mem_append] at this
    rcases this with (h | h) | h
    · exact Or.inl h
    · exact Or.inr (Or.inl h)
    · exact Or.inr (Or.inr h)

/-- **C16 (a block is marked complete only after a downloader for that hash finished without
    error).** A `closed` signal for a request of block `hh` is preceded by an effective
    `markBlockRequestComplete(hh)` caused by a downloader `d` whose `Run` returned nil for `hh`. -/
theorem C16_complete_sound (s : MSt) (h : Reach s) (i hh : Nat) (hs : (i, hh, Sig.closed) ∈ s.sigs) :
    ∃ d, (hh, d) ∈ s.marks ∧ (d, hh) ∈ s.okRets := by
  have hi := markInv_reach s h
  obtain ⟨d, hd⟩ := hi.closedMark i hh hs
  exact ⟨d, hd, hi.markOk hh d hd⟩

/-- ... and the mark takes effect only for the block that is current: the step that extends `marks`
    is the `onDownloaderCompleted` of a downloader that returned nil and whose hash is `currentHash`. -/
theorem C16_mark_current (s s' : MSt) (i : Nat) (h : step s (.dlFinish i) = some s') (hm : s'.marks ≠ s.marks) :
    ∃ d, s.dls[i]? = some d ∧ d.ret = some true ∧ s.curHash = some d.hash ∧ s.curDone = false ∧
      s'.marks = s.marks ++ [(d.hash, d.id)] := by
  simp only [step] at h
  split at h
  · rename_i d hd
    split at h
    · cases h
    · rename_i ok hret
      split at h
      · rename_i hc
        cases h
        simp only [Bool.and_eq_true, beq_iff_eq, Bool.not_eq_eq_eq_not, Bool.not_true] at hc
        exact ⟨d, hd, by rw [hret, hc.1.1], hc.1.2, hc.2, rfl⟩
      · cases h; exact absurd rfl hm
  · cases h

/-- **C16 (at most the configured number of downloads of one block run concurrently).** The
    downloads the manager has not cancelled never exceed `concurrentBlockRequests` (1 when that is 0:
    the first request of a block is unconditional), and they are all downloads of the current block.
    Downloads already cancelled (after abort / completion) may linger in the registry until their
    `Run` returns; they are not counted here, and a re-request of the SAME hash while such a
    cancelled download lingers adds a new one next to it (the code's first `requestBlock` does not
    look at the registry). -/
theorem C16_bounded_concurrency (s : MSt) (h : Reach s) :
    liveCount s.dls ≤ max s.conc 1 ∧
    (1 ≤ s.conc → liveCount s.dls ≤ s.conc) ∧
    (∀ r n, s.pc = .loop r n → ∀ d ∈ s.dls, d.cancelled = false → d.hash = r.hash) := by
  have hi := concInv_reach s h
  have h1 : liveCount s.dls ≤ max s.conc 1 := by
    cases hpc : s.pc with
    | loop r n => exact hi.loopCount r n hpc
    | idle => have := hi.idleNone (by simp [hpc]); omega
    | initial r => have := hi.idleNone (by simp [hpc]); omega
    | dead b => have := hi.idleNone (by simp [hpc]); omega
  refine ⟨h1, ?_, hi.loopHash⟩
  intro hc
  have : max s.conc 1 = s.conc := by omega
  omega

/-- **C16 (the downloader list returns to empty).** Every registered downloader either still has its
    `Run` to return (`dlReturn`, which the downloader theorems of Part 1 guarantee to happen) or has
    its `onDownloaderCompleted` pending (`dlFinish`, which removes exactly that downloader); so a
    state in which none of these steps is possible has an empty registry. -/
theorem C16_registry_empties (s : MSt)
    (h1 : ∀ i ok, step s (.dlReturn i ok) = none) (h2 : ∀ i, step s (.dlFinish i) = none) : s.dls = [] := by
  cases hd : s.dls with
  | nil => rfl
  | cons d ds =>
    have e : s.dls[0]? = some d := by simp [hd]
    cases hr : d.ret with
    | none =>
      have := h1 0 true
      simp [step, e, hr] at this
    | some ok =>
      have := h2 0
      simp only [step, e, hr] at this
      split at this <;> cases this

/-- `onDownloaderCompleted` removes exactly one downloader, and nothing else ever removes one. -/
theorem C16_registry_finish (s s' : MSt) (i : Nat) (h : step s (.dlFinish i) = some s') :
    s'.dls = s.dls.eraseIdx i ∧ i < s.dls.length := by
  simp only [step] at h
  split at h
  · rename_i d hd
    have hlt : i < s.dls.length := by
      rcases Nat.lt_or_ge i s.dls.length with h | h
      · exact h
      · rw [List.getElem?_eq_none h] at hd; cases hd
    split at h
    · cases h
    · split at h <;> cases h <;> exact ⟨rfl, hlt⟩
  · cases h

/-! ### non-vacuity -/

/-- two concurrent downloaders of block 7; the second finishes first without error, the request is
    completed, the first is cancelled and fails later; then a second request is aborted. -/
def exMgr : List MLabel :=
  [.add 7, .add 8, .take, .reqInitial true, .tick true, .dlReturn 1 true, .dlFinish 1, .mgrComplete,
   .dlReturn 0 false, .dlFinish 0, .take, .reqInitial true, .abortEnv 1, .mgrAbort]

example : ∃ s, Reach s ∧ s.sigs = [(0, 7, .closed), (1, 8, .aborted)] ∧ s.marks = [(7, 1)] ∧
    s.dls.length = 1 ∧ liveCount s.dls = 0 :=
  ⟨(runL (init 2) exMgr).get (by decide), reach_runL (init 2) exMgr _ (Reach.init 2) (by decide),
    by decide, by decide, by decide, by decide⟩

/-- **the once-only guard of the "block complete" channel, tied to the source.** The model's `dlFinish` step
    marks a block complete only `if ok && s.curHash == some d.hash && !s.curDone` and then sets `curDone`; two
    downloaders finishing the same block at the same moment is an interleaving below the call granularity of
    the harness, so the statement skeleton of `markBlockRequestComplete` is regenerated from block_manager.go
    on every run: hash test, `currentIsComplete` test, the flag set BEFORE the single `close`. -/
theorem C16_complete_guard_in_source :
    Facts.guard_markBlockRequestComplete =
      ["if !hash.Equal(&m.currentHash) return", "if m.currentIsComplete return", "m.currentIsComplete = true",
       "close(m.currentComplete)"] := by decide

/-- what the models of the download machinery take for granted about mutual exclusion and signalling: the mutex
    and channel operations and the calls of caller-supplied functions (on-stop, handlers) of every function involved (downloader, manager, the node side of a block request), with
    the control structure and returns around them, in source order. -/
def expectedSyncTraces : List (String × List String) := [
  ("BlockDownloader.Run", ["case{", "comm <-interrupt", "return", "}", "case{", "comm <-bd.Started",
      "bd.stateLock.Lock", "bd.stateLock.Unlock", "}", "case{", "comm <-time.After(2 * time.Minute)", "return",
      "}", "case{", "comm err := <-bd.Complete", "bd.stateLock.Lock", "bd.stateLock.Unlock", "return", "}",
      "case{", "comm <-interrupt", "return", "}", "case{", "comm <-time.After(time.Hour)", "return", "}", "case{",
      "comm err := <-bd.Complete", "bd.stateLock.Lock", "bd.stateLock.Unlock", "return", "}"]),
  ("BlockDownloader.cancelAndWaitForComplete", ["for{", "case{", "comm <-time.After(time.Second * 10)", "if{",
      "return", "}", "}", "case{", "comm err := <-bd.Complete", "bd.stateLock.Lock", "bd.stateLock.Unlock",
      "return", "}", "}"]),
  ("BlockDownloader.Stop", ["bd.stateLock.Lock", "if{", "bd.stateLock.Unlock", "return", "}",
      "bd.stateLock.Unlock", "if{", "send bd.Started", "send bd.Complete", "}"]),
  ("BlockDownloader.Cancel", ["bd.stateLock.Lock", "if{", "bd.stateLock.Unlock", "return", "}",
      "bd.stateLock.Unlock", "if{", "send bd.Started", "}", "if{", "send bd.Complete", "}"]),
  ("BlockDownloader.wasCancelled", ["bd.stateLock.Lock", "bd.stateLock.Unlock", "return"]),
  ("BlockDownloader.HandleBlock", ["send bd.Started", "if{", "send bd.Complete", "return", "}", "if{",
      "send bd.Complete", "return", "}", "send bd.Complete", "return"]),
  ("BlockDownloader.handleBlock", ["range txChannel{", "if{", "range txChannel{", "}", "return", "}", "if{",
      "range txChannel{", "}", "return", "}", "}", "if{", "return", "}", "if{", "return", "}", "if{", "return",
      "}", "range blockTxIDs{", "if{", "return", "}", "}", "if{", "return", "}", "if{", "return", "}",
      "range blockTxIDs{", "if{", "return", "}", "}", "if{", "return", "}", "return"]),
  ("BlockManager.AddRequest", ["m.requestLock.Lock", "if{", "m.requestLock.Unlock", "return", "}",
      "send m.requests", "m.requestLock.Unlock", "return"]),
  ("BlockManager.Stop", ["m.downloaderLock.Lock", "m.downloaderLock.Unlock"]),
  ("BlockManager.shutdown", ["for{", "m.downloaderLock.Lock", "m.downloaderLock.Unlock", "if{", "return", "}",
      "}"]),
  ("BlockManager.processRequest", ["m.currentLock.Lock", "m.currentLock.Unlock", "for{", "case{",
      "comm <-time.After(m.blockRequestDelay)", "if{", "return", "}", "}", "case{", "comm <-interrupt", "return",
      "}", "case{", "comm <-request.abort", "send request.complete", "return", "}", "case{",
      "comm <-m.currentComplete", "close request.complete", "return", "}", "}"]),
  ("BlockManager.cancelDownloaders", ["m.downloaderLock.Lock", "m.downloaderLock.Unlock"]),
  ("BlockManager.requestBlock", ["if{", "return", "}", "m.downloaderLock.Lock", "m.downloaderLock.Unlock",
      "return"]),
  ("BlockManager.removeDownloader", ["m.downloaderLock.Lock", "range m.downloaders{", "if{",
      "m.downloaderLock.Unlock", "return", "}", "}", "m.downloaderLock.Unlock"]),
  ("BlockManager.markBlockRequestComplete", ["m.currentLock.Lock", "defer m.currentLock.Unlock", "if{", "return",
      "}", "if{", "return", "}", "close m.currentComplete"]),
  ("BitcoinNode.RequestBlock", ["n.Lock", "if{", "n.Unlock", "return", "}", "n.Unlock", "if{", "return", "}",
      "n.Lock", "n.Unlock", "return"]),
  ("BitcoinNode.CancelBlockRequest", ["n.Lock", "defer n.Unlock", "if{", "return", "}", "if{", "return", "}",
      "if{", "if{", "return", "}", "return", "}", "return"]),
  ("BitcoinNode.handleBlock", ["if{", "return", "}", "n.Lock", "if{", "n.Unlock", "return", "}", "if{", "n.Unlock",
      "return", "}", "if{", "n.Unlock", "return", "}", "n.Unlock", "if{", "return", "}", "n.Lock", "if{",
      "n.Unlock", "return", "}", "n.Unlock", "defer{", "close txChannel", "}", "for{", "case{",
      "comm <-n.interrupt", "return", "}", "case{", "}", "if{", "return", "}", "send txChannel", "}", "return"]),
  ("BitcoinNode.completeBlock", ["n.Lock", "n.Unlock"]),
  ("BitcoinNode.IsBusy", ["n.Lock", "defer n.Unlock", "return"]),
  ("BitcoinNode.Stop", []),
  ("BitcoinNode.closeConnection", ["n.connectionLock.Lock", "n.connectionLock.Unlock"]),
  ("BitcoinNode.run", ["case{", "comm <-interrupt", "}", "case{", "comm <-readIncomingComplete", "}", "case{",
      "comm <-sendOutgoingComplete", "}", "case{", "comm <-pingComplete", "}", "case{",
      "comm <-time.After(n.config.Timeout.Duration)", "}", "n.Lock", "n.Unlock", "if{", "call blockOnStop", "}",
      "return"])
]

/-- **C16 (the locking and signalling discipline the models assume is the one in the source).** The small-step
    models take one critical section, one channel send, one receive as a step; interleavings below call
    granularity are covered by the proofs only. `Facts.syncTraces` is regenerated from block_downloader.go,
    block_manager.go, bitcoin_node.go and handlers.go on every run (`lockTrace` in go/cmd/extract): a lock released
    earlier, a send added, moved or made unconditional, a `close` outside its guard breaks this theorem even when no
    run of the harnesses hits the window. -/
theorem C16_sync_traces_in_source : Facts.syncTraces = expectedSyncTraces := by decide

end BRV.BlockMgr
