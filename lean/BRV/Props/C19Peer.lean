/-
C19 — last clause: "Any peer that answers per protocol from its own chain sharing a locator hash with
ours returns headers that connect to a header we hold."

The peer is an external party; its protocol behaviour (`getheaders`: find the FIRST locator hash that is
on its own active chain and answer with the headers after it, at most `limit`; when none is found, answer
from the header after genesis) is written here as the specification `peerReply`.  The theorems are about
that specification composed with the model's `locator` (Model/Locator.lean), for every repository state,
every requested maximum, every peer chain and every reply limit.
-/
import BRV.Props.C19

namespace BRV.Repo

/-- a peer's active chain, lowest first: each header names the one below it. -/
def ChainLinked : List Hdr → Prop
  | [] => True
  | [_] => True
  | a :: b :: rest => b.prev = a.id ∧ ChainLinked (b :: rest)

/-- the headers of `chain` above the first header whose hash is `x`; `none` when `x` is not on the chain. -/
def afterId : List Hdr → Nat → Option (List Hdr)
  | [], _ => none
  | a :: rest, x => if a.id = x then some rest else afterId rest x

/-- `getheaders` as the protocol defines it. -/
def peerReply (chain : List Hdr) (loc : List Nat) (limit : Nat) : List Hdr :=
  match loc.findSome? (afterId chain) with
  | some rest => rest.take limit
  | none => (chain.drop 1).take limit

theorem afterId_some_iff (chain : List Hdr) (x : Nat) : (afterId chain x).isSome ↔ ∃ d ∈ chain, d.id = x := by
  induction chain with
  | nil => simp [afterId]
  | cons a rest ih =>
    simp only [afterId]
    split
    · rename_i h; simp [h]
    · rename_i h
      rw [ih]
      constructor
      · rintro ⟨d, hd, hx⟩; exact ⟨d, List.mem_cons_of_mem _ hd, hx⟩
      · rintro ⟨d, hd, hx⟩
        rcases List.mem_cons.mp hd with rfl | hd
        · exact absurd hx h
        · exact ⟨d, hd, hx⟩

/-- the header just above `x` on a linked chain names `x`. -/
theorem afterId_head_prev (chain : List Hdr) (x : Nat) (rest : List Hdr) (f : Hdr) (hl : ChainLinked chain)
    (ha : afterId chain x = some rest) (hf : rest.head? = some f) : f.prev = x := by
  induction chain with
  | nil => simp [afterId] at ha
  | cons a tl ih =>
    simp only [afterId] at ha
    split at ha
    · rename_i hax
      cases ha
      cases rest with
      | nil => simp at hf
      | cons b tl' =>
        simp only [List.head?_cons, Option.some.injEq] at hf
        subst hf
        rw [← hax]; exact hl.1
    · apply ih _ ha
      cases tl with
      | nil => trivial
      | cons b tl' => exact hl.2

theorem ChainLinked_tail (a : Hdr) (l : List Hdr) (h : ChainLinked (a :: l)) : ChainLinked l := by
  cases l with
  | nil => trivial
  | cons b tl => exact h.2

theorem ChainLinked_take (l : List Hdr) (n : Nat) (h : ChainLinked l) : ChainLinked (l.take n) := by
  induction l generalizing n with
  | nil => simp [ChainLinked]
  | cons a tl ih =>
    cases n with
    | zero => simp [ChainLinked]
    | succ n =>
      cases tl with
      | nil => simp [ChainLinked]
      | cons b tl' =>
        cases n with
        | zero => simp [ChainLinked]
        | succ n =>
          have := ih (n + 1) h.2
          simp only [List.take_succ_cons] at this ⊢
          exact ⟨h.1, this⟩

theorem ChainLinked_drop (l : List Hdr) (n : Nat) (h : ChainLinked l) : ChainLinked (l.drop n) := by
  induction n generalizing l with
  | zero => simpa using h
  | succ n ih =>
    cases l with
    | nil => simp [ChainLinked]
    | cons a tl => simpa using ih tl (ChainLinked_tail a tl h)

theorem afterId_linked (chain : List Hdr) (x : Nat) (rest : List Hdr) (hl : ChainLinked chain)
    (ha : afterId chain x = some rest) : ChainLinked rest := by
  induction chain with
  | nil => simp [afterId] at ha
  | cons a tl ih =>
    simp only [afterId] at ha
    split at ha
    · cases ha; exact ChainLinked_tail a _ hl
    · exact ih (ChainLinked_tail a tl hl) ha

/-- **C19 (a per-protocol reply is a linked run of the peer's chain).** -/
theorem C19_peer_reply_linked (chain : List Hdr) (loc : List Nat) (limit : Nat) (hl : ChainLinked chain) :
    ChainLinked (peerReply chain loc limit) := by
  unfold peerReply
  split
  · rename_i rest hfs
    obtain ⟨x, _, hx⟩ := List.exists_of_findSome?_eq_some hfs
    exact ChainLinked_take _ _ (afterId_linked chain x rest hl hx)
  · exact ChainLinked_take _ _ (ChainLinked_drop _ 1 hl)

/-- **C19 (the reply hangs below a locator hash).** When the peer's chain shares any hash with the
    locator, the first header of a non-empty reply names a hash OF THE LOCATOR as its previous block —
    whatever the peer's chain, the limit and the position of the shared hash. -/
theorem C19_peer_reply_first_prev (chain : List Hdr) (loc : List Nat) (limit : Nat) (hl : ChainLinked chain)
    (hshare : ∃ x ∈ loc, ∃ d ∈ chain, d.id = x) (f : Hdr) (hf : (peerReply chain loc limit).head? = some f) :
    f.prev ∈ loc := by
  unfold peerReply at hf
  split at hf
  · rename_i rest hfs
    obtain ⟨x, hxl, hx⟩ := List.exists_of_findSome?_eq_some hfs
    have hf' : rest.head? = some f := by
      cases rest with
      | nil => simp at hf
      | cons b tl =>
        cases limit with
        | zero => simp at hf
        | succ n => simpa using hf
    rw [afterId_head_prev chain x rest f hl hx hf']; exact hxl
  · rename_i hnone
    obtain ⟨x, hxl, hd⟩ := hshare
    have := (afterId_some_iff chain x).mpr hd
    rw [List.findSome?_eq_none_iff] at hnone
    rw [hnone x hxl] at this
    cases this

/-- **C19 (a same-chain peer's reply connects to a header we hold).** Composition with
    `C19_membership`: for every repository state and maximum, the first header of a per-protocol reply of
    any peer whose chain shares a locator hash hangs below a best-chain header we hold, the height-0
    tip, a fork point of the split table, or the lowest held header of a tracked side branch. -/
theorem C19_peer_reply_connects (r : Repo) (max : Nat) (chain : List Hdr) (limit : Nat) (hl : ChainLinked chain)
    (hshare : ∃ x ∈ locator r max, ∃ d ∈ chain, d.id = x) (f : Hdr)
    (hf : (peerReply chain (locator r max) limit).head? = some f) :
    (∃ h d, r.at r.longest h = some d ∧ d.hdr.id = f.prev) ∨
    ((r.br r.longest).height = 0 ∧ ∃ l, (r.br r.longest).last? = some l ∧ l.hdr.id = f.prev) ∨
    (∃ s ∈ r.cfg.splits, s.before = f.prev) ∨
    (∃ bi ∈ r.branches, bi ≠ r.longest ∧ ∃ d, r.at bi (r.br bi).prunedLowest = some d ∧ d.hdr.id = f.prev) :=
  C19_membership r max f.prev (C19_peer_reply_first_prev chain _ limit hl hshare f hf)

/-- and the rest of the reply follows from it header by header (`C19_peer_reply_linked`), so every header
    of the reply passes the repository's unknown-parent test once the ones before it are accepted. -/
theorem C19_peer_reply_chain (r : Repo) (max : Nat) (chain : List Hdr) (limit : Nat) (hl : ChainLinked chain) :
    ChainLinked (peerReply chain (locator r max) limit) :=
  C19_peer_reply_linked chain _ limit hl

/-- non-vacuity and the protocol's choice of the FIRST shared hash: a peer two headers ahead of a
    locator [7, 5, 1] whose chain holds 5 and 1 but not 7 answers from above 5. -/
example : peerReply [⟨1, 0, 0, 0, 0⟩, ⟨5, 1, 0, 0, 0⟩, ⟨8, 5, 0, 0, 0⟩, ⟨9, 8, 0, 0, 0⟩] [7, 5, 1] 2000
    = [⟨8, 5, 0, 0, 0⟩, ⟨9, 8, 0, 0, 0⟩] := by decide

example : ChainLinked [⟨1, 0, 0, 0, 0⟩, ⟨5, 1, 0, 0, 0⟩, ⟨8, 5, 0, 0, 0⟩, ⟨9, 8, 0, 0, 0⟩] := by
  simp [ChainLinked]

/-! ### a peer on our own chain answers beginning with our tip -/

theorem afterId_append (below rest : List Hdr) (par : Hdr) (hnd : ∀ d ∈ below, d.id ≠ par.id) :
    afterId (below ++ par :: rest) par.id = some rest := by
  induction below with
  | nil => simp [afterId]
  | cons a tl ih =>
    simp only [List.cons_append, afterId]
    rw [if_neg (hnd a (List.mem_cons_self ..))]
    exact ih (fun d hd => hnd d (List.mem_cons_of_mem _ hd))

theorem findSome?_skip (chain : List Hdr) (pre : List Nat) (rest : List Nat)
    (hpre : ∀ x ∈ pre, ∀ d ∈ chain, d.id ≠ x) :
    (pre ++ rest).findSome? (afterId chain) = rest.findSome? (afterId chain) := by
  induction pre with
  | nil => rfl
  | cons x tl ih =>
    have hx : afterId chain x = none := by
      cases h : afterId chain x with
      | none => rfl
      | some v =>
        have := (afterId_some_iff chain x).mp (by rw [h]; rfl)
        obtain ⟨d, hd, hdx⟩ := this
        exact absurd hdx (hpre x (List.mem_cons_self ..) d hd)
    simp only [List.cons_append, List.findSome?_cons, hx]
    exact ih (fun y hy => hpre y (List.mem_cons_of_mem _ hy))

/-- **C19 (a peer on our chain continues from our tip), list level.** The peer's chain holds our tip's
    parent `par` directly below our tip `tip` (it is on our chain, possibly ahead of us by `above`); the
    locator names `par` after any number of hashes the peer does not have (side-branch bases sort first
    when they are as high as the tip).  Then the per-protocol reply is exactly our tip followed by what
    the peer has above it, cut at the limit — for every limit, every `below`/`above` and every such
    locator prefix. -/
theorem C19_peer_reply_starts_with_tip (below above : List Hdr) (par tip : Hdr) (pre post : List Nat) (limit : Nat)
    (hnd : ∀ d ∈ below, d.id ≠ par.id)
    (hpre : ∀ x ∈ pre, ∀ d ∈ below ++ par :: tip :: above, d.id ≠ x) :
    peerReply (below ++ par :: tip :: above) (pre ++ par.id :: post) limit = (tip :: above).take limit := by
  unfold peerReply
  rw [findSome?_skip _ pre _ hpre]
  simp only [List.findSome?_cons, afterId_append below (tip :: above) par hnd]

/-- **C19 (…continues from our tip), on the model's branch locator.** Above height 0 with the header below
    the tip held (`d`), a peer whose chain has that header directly below our tip answers the best
    branch's locator with a reply that STARTS WITH OUR TIP (already known: no change) and continues with the
    peer's headers above it — each naming the one before (`C19_peer_reply_linked`). -/
theorem C19_same_chain_peer_starts_with_tip (r : Repo) (bi : Nat) (splits : List Split) (delta : Int) (max : Nat)
    (d : HData) (hh : (r.br bi).height ≠ 0) (hp : r.at bi ((r.br bi).height - 1) = some d)
    (below above : List Hdr) (par tip : Hdr) (limit : Nat) (hlim : 0 < limit) (hpar : par.id = d.hdr.id)
    (hnd : ∀ x ∈ below, x.id ≠ par.id) :
    (peerReply (below ++ par :: tip :: above) ((branchLocator r bi splits delta max).map (·.2)) limit).head? = some tip := by
  have h1 := C19_first_is_parent r bi splits delta max d hh hp
  unfold branchLocator
  cases hT : branchLocatorTagged r bi splits delta max with
  | nil => rw [hT] at h1; simp at h1
  | cons x xs =>
    rw [hT] at h1
    simp only [List.head?_cons, Option.some.injEq] at h1
    subst h1
    simp only [List.map_cons, ← hpar]
    have := C19_peer_reply_starts_with_tip below above par tip [] ((xs.map (·.1)).map (·.2)) limit hnd
      (by intro x hx; cases hx)
    simp only [List.nil_append] at this
    rw [this]
    cases limit with
    | zero => omega
    | succ n => simp

example : peerReply [⟨1, 0, 0, 0, 0⟩, ⟨5, 1, 0, 0, 0⟩, ⟨8, 5, 0, 0, 0⟩, ⟨9, 8, 0, 0, 0⟩] ([77] ++ 5 :: [1]) 2000
    = [⟨8, 5, 0, 0, 0⟩, ⟨9, 8, 0, 0, 0⟩] := by decide

end BRV.Repo
