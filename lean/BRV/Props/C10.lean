/-
C10 — Clean (consolidate, save, prune) never changes what the repository reports.

Proved here for every repository state: pruning a branch keeps its tip height and every retained
height readable unchanged (C09_prune_*), never touches the long-lived height map, the invalid list
or the tip pointer; consolidation is a no-op when the best branch already is the oldest (so a
second Clean does not restructure again); the clean sequence is consolidate → save main → prune →
save invalid (extracted call order), it never writes the branch index, and the real prune depth
and the automatic-clean period are the extracted constants. That the whole Clean preserves every
observation (`obsAll (clean r) = obsAll r`) needs the repository well-formedness invariant across
Consolidate/Truncate/Connect; it is checked by the correspondence (`dump; clean; dump` triples on
every generated history, small and real depths) and is not yet a theorem (`_partial`).
-/
import BRV.Props.C09

namespace BRV.Repo

/-- **C10 (consolidation is idempotent at the fixed point).** When the best branch is the oldest
    branch (parent height −1 found first), `consolidate` changes nothing. -/
theorem C10_consolidate_noop (r : Repo)
    (h : r.branches.find? (fun bi => (r.br bi).parentHeight == -1) = some r.longest) :
    consolidate r = .ok r := by
  unfold consolidate
  simp only [h, ↓reduceIte]

/-- **C10 (prune leaves tip, heights map and invalid list alone).** -/
theorem prune_go_fields (ph : Int) (bs : List Nat) (r : Repo) (acc : List Nat) (r' : Repo) (nbs : List Nat)
    (h : prune.go ph bs r acc = .ok (r', nbs)) :
    r'.longest = r.longest ∧ r'.heights = r.heights ∧ r'.invalid = r.invalid ∧ r'.cfg = r.cfg := by
  induction bs generalizing r acc with
  | nil =>
    simp only [prune.go, Except.ok.injEq, Prod.mk.injEq] at h
    obtain ⟨rfl, _⟩ := h
    exact ⟨rfl, rfl, rfl, rfl⟩
  | cons bi rest ih =>
    simp only [prune.go] at h
    split at h
    · cases h
    · rename_i r1 hs
      have hsave : r1.longest = r.longest ∧ r1.heights = r.heights ∧ r1.invalid = r.invalid ∧ r1.cfg = r.cfg := by
        unfold branchSave at hs
        split at hs
        · simp only [Except.ok.injEq] at hs; rw [← hs]; exact ⟨rfl, rfl, rfl, rfl⟩
        · split at hs
          · cases hs
          · simp only [Except.ok.injEq] at hs; rw [← hs]; exact ⟨rfl, rfl, rfl, rfl⟩
      split at h
      · have := ih _ _ h
        exact ⟨this.1.trans hsave.1, this.2.1.trans hsave.2.1, this.2.2.1.trans hsave.2.2.1, this.2.2.2.trans hsave.2.2.2⟩
      · split at h
        · have := ih _ _ h
          exact ⟨this.1.trans hsave.1, this.2.1.trans hsave.2.1, this.2.2.1.trans hsave.2.2.1, this.2.2.2.trans hsave.2.2.2⟩
        · have := ih _ _ h
          exact ⟨this.1.trans hsave.1, this.2.1.trans hsave.2.1, this.2.2.1.trans hsave.2.2.1, this.2.2.2.trans hsave.2.2.2⟩

theorem C10_prune_keeps_tip (r : Repo) (depth : Int) (r' : Repo) (h : prune r depth = .ok r') :
    r'.longest = r.longest ∧ r'.heights = r.heights ∧ r'.invalid = r.invalid := by
  unfold prune at h
  split at h
  · cases h
  · simp only at h
    split at h
    · cases h
    · rename_i r1 nbs hg
      simp only [Except.ok.injEq] at h
      rw [← h]
      have := prune_go_fields _ _ _ _ _ _ hg
      exact ⟨this.1, this.2.1, this.2.2.1⟩

/-- **C10 (the call sequence of clean and the constants).** -/
theorem C10_clean_shape :
    Facts.callOrder_clean = ["consolidate", "saveMainBranch", "prune", "saveInvalidHashes"] ∧
    Facts.callOrder_prune = ["Save", "Prune"] ∧
    Facts.pruneDepth = 10000 ∧ Facts.autoCleanModulus = 10000 ∧ Facts.headersPerFile = 1000 ∧
    Facts.defaultMaxBranchDepth = 144 := by decide

/-- the real prune depth keeps far more than the deepest fork that can still be extended. -/
theorem C10_depth_covers_forks : Facts.defaultMaxBranchDepth + 2 ≤ Facts.pruneDepth := by decide

end BRV.Repo
