/-
C10 — Clean (consolidate, save, prune) never changes what the repository reports.

Proved here for every repository state: pruning a branch keeps its tip height and every retained
height readable unchanged (C09_prune_*), never touches the long-lived height map, the invalid list
or the tip pointer; consolidation is a no-op when the best branch already is the oldest (so a
second Clean does not restructure again); the clean sequence is consolidate → save main → prune →
save invalid (extracted call order), it never writes the branch index, and the real prune depth
and the automatic-clean period are the extracted constants.

For every repository reached by submissions from genesis whose best branch is the root branch (no
reorganisation since genesis / the previous consolidation) and every prune depth ≥ 0, a successful
Clean preserves every observation (`C10_clean_root_*`): tip height, hash and work; `Header(k)` /
`Hash(k)` at EVERY height `k ≥ 0` — the retained ones from memory, the pruned ones from the
1000-header files Clean just wrote (`saveMain_files`: header `k` is record `k % 1000` of file
`k / 1000`); the height and the most-work-chain flag reported for EVERY hash, pruned or not; every
branch is kept. When the best branch is NOT the root (a reorganisation is pending) Clean first
consolidates (Truncate/Connect/reload); that case is checked by the correspondence (`dump; clean;
dump` triples on every generated history, small and real depths) and is not yet a theorem
(`_partial`).
-/
import BRV.Props.C09
import BRV.Proofs.RepoClean
import BRV.Proofs.LinearWorld

namespace BRV.Repo

/-- **C10 (consolidation is idempotent at the fixed point).** When the best branch is the oldest
    branch (parent height −1 found first), `consolidate` changes nothing. -/
theorem C10_consolidate_noop (r : Repo)
    (h : r.branches.find? (fun bi => (r.br bi).parentHeight == -1) = some r.longest) :
    consolidate r = .ok r := by
  unfold consolidate
  simp only [h, ↓reduceIte]

/-- **C10 (prune leaves tip, heights map and invalid list alone).** -/
theorem prune_go_fields (ph : Int) (bs : List Nat) (r : Repo) (acc : List Nat) (r' : Repo) (nbs : List Nat)
    (h : prune.go ph bs r acc = .ok (r', nbs)) :
    r'.longest = r.longest ∧ r'.heights = r.heights ∧ r'.invalid = r.invalid ∧ r'.cfg = r.cfg := by
  induction bs generalizing r acc with
  | nil =>
    simp only [prune.go, Except.ok.injEq, Prod.mk.injEq] at h
    obtain ⟨rfl, _⟩ := h
    exact ⟨rfl, rfl, rfl, rfl⟩
  | cons bi rest ih =>
    simp only [prune.go] at h
    split at h
    · cases h
    · rename_i r1 hs
      have hsave : r1.longest = r.longest ∧ r1.heights = r.heights ∧ r1.invalid = r.invalid ∧ r1.cfg = r.cfg := by
        unfold branchSave at hs
        split at hs
        · simp only [Except.ok.injEq] at hs; rw [← hs]; exact ⟨rfl, rfl, rfl, rfl⟩
        · split at hs
          · cases hs
          · simp only [Except.ok.injEq] at hs; rw [← hs]; exact ⟨rfl, rfl, rfl, rfl⟩
      split at h
      · have := ih _ _ h
        exact ⟨this.1.trans hsave.1, this.2.1.trans hsave.2.1, this.2.2.1.trans hsave.2.2.1, this.2.2.2.trans hsave.2.2.2⟩
      · split at h
        · have := ih _ _ h
          exact ⟨this.1.trans hsave.1, this.2.1.trans hsave.2.1, this.2.2.1.trans hsave.2.2.1, this.2.2.2.trans hsave.2.2.2⟩
        · have := ih _ _ h
          exact ⟨this.1.trans hsave.1, this.2.1.trans hsave.2.1, this.2.2.1.trans hsave.2.2.1, this.2.2.2.trans hsave.2.2.2⟩

theorem C10_prune_keeps_tip (r : Repo) (depth : Int) (r' : Repo) (h : prune r depth = .ok r') :
    r'.longest = r.longest ∧ r'.heights = r.heights ∧ r'.invalid = r.invalid := by
  unfold prune at h
  split at h
  · cases h
  · simp only at h
    split at h
    · cases h
    · rename_i r1 nbs hg
      simp only [Except.ok.injEq] at h
      rw [← h]
      have := prune_go_fields _ _ _ _ _ _ hg
      exact ⟨this.1, this.2.1, this.2.2.1⟩

/-- **C10 (the call sequence of clean and the constants).** -/
theorem C10_clean_shape :
    Facts.callOrder_clean = ["consolidate", "saveMainBranch", "prune", "saveInvalidHashes"] ∧
    Facts.callOrder_prune = ["Save", "Prune"] ∧
    Facts.pruneDepth = 10000 ∧ Facts.autoCleanModulus = 10000 ∧ Facts.headersPerFile = 1000 ∧
    Facts.defaultMaxBranchDepth = 144 := by decide

/-- the real prune depth keeps far more than the deepest fork that can still be extended. -/
theorem C10_depth_covers_forks : Facts.defaultMaxBranchDepth + 2 ≤ Facts.pruneDepth := by decide

/-! ### Clean with the root as best branch -/

/-- **C10 (tip and lookups by hash).** Clean leaves the tip (height, hash, accumulated work) and the
    height reported for EVERY hash unchanged; above a prune height `P ≤ tip − depth` the best chain
    stays in memory unchanged, below it is dropped from memory. -/
theorem C10_clean_root_reads (r : Repo) (hs : StreamWF r) (hcm : HeightsComplete r) (hroot : r.longest = 0)
    (hlen : 0 < r.arena.length) (depth : Int) (hd : 0 ≤ depth) (r' : Repo) (hc : cleanWith r depth = (r', none)) :
    tipHeight r' = tipHeight r ∧ tipId r' = tipId r ∧ tipWork r' = tipWork r ∧
    (∃ P : Int, P ≤ tipHeight r - depth ∧ (∀ k : Int, P ≤ k → r'.at r'.longest k = r.at r.longest k) ∧
      (∀ k : Int, k < P → r'.at r'.longest k = none)) ∧
    (∀ id, hashHeight r' id = hashHeight r id) :=
  clean_root_reads r hs hcm hroot hlen depth hd r' hc

/-- **C10 (the header at every height; history dropped from memory stays retrievable by height).** -/
theorem C10_clean_root_headerAt (r : Repo) (hs : StreamWF r) (hroot : r.longest = 0) (hlen : 0 < r.arena.length)
    (depth : Int) (hd : 0 ≤ depth) (r' : Repo) (hc : cleanWith r depth = (r', none)) (k : Int) (hk : 0 ≤ k) :
    headerAt r' k = headerAt r k :=
  clean_root_headerAt r hs hroot hlen depth hd r' hc k hk

theorem checkHeader_eq (r : Repo) (id : Nat) :
    checkHeader r id = match hashHeight r id with
      | some h => .ok (h, inLongest r id h)
      | none => .error .unknown := by
  unfold checkHeader hashHeight
  cases r.branchesFind id with
  | some x => rfl
  | none => cases r.heights.get? id <;> rfl

/-- **C10 (height and best-chain status of every accepted header; retrievable by hash).**
    `CheckHeader` answers the same for every hash after Clean — also for best-chain headers pruned
    from memory, whose flag is then decided through the files. -/
theorem C10_clean_root_checkHeader (r : Repo) (hs : StreamWF r) (hcm : HeightsComplete r) (hroot : r.longest = 0)
    (hlen : 0 < r.arena.length) (depth : Int) (hd : 0 ≤ depth) (r' : Repo) (hc : cleanWith r depth = (r', none))
    (id : Nat) : checkHeader r' id = checkHeader r id := by
  obtain ⟨_, _, _, _, hhh⟩ := clean_root_reads r hs hcm hroot hlen depth hd r' hc
  rw [checkHeader_eq, checkHeader_eq, hhh id]
  cases hh : hashHeight r id with
  | none => rfl
  | some h =>
    simp only
    -- reported heights are non-negative
    obtain ⟨bj, d, hat, _⟩ := C09_height_is_position r hs.chain.wf id h hh
    have hlt : bj < r.arena.length := atHeight_some_lt _ _ _ _ _ hat
    rw [Repo.at_eq_atH r hs.chain.wf.link.dec bj hlt] at hat
    obtain ⟨bk, b, k, hb, _, hk⟩ := atH_data r.arena hs.chain.wf.link bj h d hat
    have := parentHeight_ge r.arena hs.chain.wf.link hs.chain.root hs.chain.owns bk b hb
    have h0 : 0 ≤ h := by omega
    unfold inLongest
    rw [clean_root_headerAt r hs hroot hlen depth hd r' hc h h0]

/-- the hypotheses are met and Clean succeeds on a concrete repository: genesis plus three headers,
    prune depth 1 (two heights dropped from memory and served from the file afterwards). -/
def exC10 : Repo :=
  submitAll genesisRepo [({ id := 1, prev := 0, bits := 0x1d00ffff, time := 2 }, true),
    ({ id := 2, prev := 1, bits := 0x1d00ffff, time := 3 }, true), ({ id := 3, prev := 2, bits := 0x1d00ffff, time := 4 }, true)]

example : (cleanWith exC10 1).2.isNone = true ∧ exC10.longest = 0 ∧ 0 < exC10.arena.length ∧
    ((cleanWith exC10 1).1.at 0 1).isNone = true ∧
    (match headerAt (cleanWith exC10 1).1 1 with | .ok h => some h.id | .error _ => none) = some 1 ∧
    (match headerAt exC10 1 with | .ok h => some h.id | .error _ => none) = some 1 := by decide

theorem genesis_heightsComplete : HeightsComplete genesisRepo := by
  intro bj id x hh
  obtain ⟨b, k, d, hb, hk, hid, hx⟩ := hh
  obtain ⟨rfl, rfl⟩ := genesisRepo_get bj b hb
  have hk0 : k = 0 := by
    cases k with
    | zero => rfl
    | succ n => simp [genesisRepo] at hk
  subst hk0
  simp only [genesisRepo, List.getElem_cons_zero, List.getElem?_cons_zero, Option.some.injEq] at hk
  subst hk
  simp only at hid
  subst hid; subst hx
  rfl


/-- **C10 in the linear world**: at ANY point of ANY history of tip-extending submissions (any length,
    across 1000-header file boundaries, the 10000-header prune depth and the automatic clean), Cleans, Saves
    and Loads, running Clean with any depth succeeds and leaves the tip, the header at every height and the
    height of every hash unchanged — and the repository is again in the linear world, so the statement
    applies to every later operation as well (Clean any number of times, when the chain already spans
    several consolidated generations). -/
theorem C10_linear_world (r0 : Repo) (c0 : List HData) (k0 m0 : Nat) (h0 : PLin r0 c0 k0 m0) (ops : List LinOp)
    (hh : LinHist r0 ops) (depth : Int) (hd : 0 ≤ depth) :
    ∃ r', cleanWith (runOps r0 ops) depth = (r', none) ∧
      tipHeight r' = tipHeight (runOps r0 ops) ∧ tipId r' = tipId (runOps r0 ops) ∧ tipWork r' = tipWork (runOps r0 ops) ∧
      (∀ h : Nat, headerAt r' h = headerAt (runOps r0 ops) h) ∧ (∀ id, hashHeight r' id = hashHeight (runOps r0 ops) id) ∧
      LinHist (runOps r0 ops) [.clean depth] := by
  obtain ⟨c, k, m, hp⟩ := plin_history ops r0 c0 k0 m0 h0 hh
  obtain ⟨r', k', hcl, _, h1, h2, h3, h4, h5⟩ := clean_obs_lin hp depth hd
  exact ⟨r', hcl, h1, h2, h3, h4, h5, ⟨hd, trivial⟩⟩

/-- the genesis-only repository starts a linear world (hypothesis of the linear-world theorems). -/
theorem genesis_linear_world : PLin genesisRepo genesisRepo.arena[0].headers 0 0 := plin_genesis

end BRV.Repo
