/-
C16, node side — RequestBlock / CancelBlockRequest / completeBlock / onStop as modelled in
Model/Node.lean and Model/Wire.lean (`hBlock`), tied to bitcoin_node.go:213-282,420-435 and
handlers.go handleBlock/completeBlock/discardBlock by the `node` correspondence (requests, cancels
at every point of a block delivered whole or in pieces, peer drops).

The theorems describe the code after the repository fixes 3cf55e1 (`blockStarted`: "started" is
answered only when the handler thread was started), 7843a17 (an in-progress cancel closes the
connection first, so it does not wait for a stalled peer) and 3c351de (the transaction channel is
closed on every way out of `handleBlock`). Before them the harness showed: cancel mid-stream not
returning while the peer stalls, `true` answered after the bare block header with a handler that
was never called, and a handler left parked on its channel after a recovered panic
(corpus/C16/node-block-requests.ops scenarios 5, 6; corpus/C16/node-handler-left-running.ops).
Still as the code is: a cancelled request stays outstanding (the node stays busy) until the block
message arrives; `onStop` is invoked at the end of `run()` iff it is still armed.
-/
import BRV.Props.C15

namespace BRV.Wire
open BRV BRV.Node BRV.Spec

theorem accept_blk (s : State) (h : BlkInv s) : BlkInv (accept s).1 := by
  unfold accept
  simp only []
  split <;> exact BlkInv.same (s := s) rfl rfl rfl rfl rfl rfl h

/-- the block-request fields stay consistent through every `handleMessage`. -/
theorem handleMessage_blk (e : Env) (s : State) (inp : Bytes) (hI : Inv s) (hB : BlkInv s) (s' : State)
    (h : (handleMessage e s inp).state = some s') : BlkInv s' := by
  unfold handleMessage at h
  split at h
  · simp only [Outcome.state, Option.some.injEq] at h; exact h ▸ hB
  · split at h
    · simp only [Outcome.state, Option.some.injEq] at h; exact h ▸ (stopped_frame s).blk hB
    · split at h
      · simp only [Outcome.state, Option.some.injEq] at h; exact h ▸ hB
      · simp only [] at h
        split at h
        · split at h <;> simp only [Outcome.state, Option.some.injEq] at h
          · exact h ▸ hB
          · exact h ▸ (stopped_frame s).blk hB
        · split at h
          · split at h <;> (simp only [Outcome.state, Option.some.injEq] at h; exact h ▸ hB)
          · rename_i hd _
            have hd' : ∀ L ck, BlkInv (dispatch e s hd L ck (inp.drop 24)).st := by
              intro L ck
              rcases dispatch_frame_or_accept e s hd L ck (inp.drop 24) (fun hv => (hI.pre hv).2.2) with hf | ⟨_, he⟩
              · exact hf.blk hB
              · rw [he]; exact accept_blk s hB
            rcases toOutcome_state _ _ _ h with rfl | rfl
            · exact hd' _ _
            · exact (stopped_frame _).blk (hd' _ _)

theorem reach_blk (e : Env) (s : State) (h : Reach e s) : BlkInv s := by
  induction h with
  | init vo tx hh pn => exact ⟨fun h => (by cases h), fun h => (by cases h), fun h => (by cases h), fun h => (by cases h)⟩
  | step inp hr hs ih => exact handleMessage_blk e _ inp (reach_inv e _ hr) ih _ hs
  | reqBlock h _ _ _ => exact ⟨fun _ => ⟨rfl, rfl⟩, fun h => (by cases h), fun _ => rfl, fun h => (by cases h)⟩
  | cancel h _ ih => exact cancelBlock_blk _ h ih

theorem reach_blk_started (e : Env) (s : State) (h : Reach e s) :
    s.blockStarted = true → s.blockReader = true ∧ s.bh.called = true ∧ s.bh.done = none :=
  (reach_blk e s h).started

/-- **CancelBlockRequest's answer.** `true` iff the request is for this hash, its block message
    has begun and the handler thread has been started. -/
theorem C16_cancel_true_iff_started (s : State) (h : Bytes) :
    (cancelBlock s h).2 = true ↔ s.blockReq = some h ∧ s.blockReader = true ∧ s.blockStarted = true := by
  unfold cancelBlock
  cases hq : s.blockReq with
  | none => simp
  | some want =>
    by_cases hw : want = h
    · subst hw
      by_cases hr : s.blockReader = true <;> by_cases hst : s.blockStarted = true <;> simp [hr, hst]
    · have hw' : ¬ (some want = some h) := by intro hc; exact hw (Option.some.inj hc)
      simp [hw, hw']

/-- in every reachable state "started" means what the downloader needs: the handler has been
    called and has not returned. Hence: CancelBlockRequest returns true iff the handler was started
    and has not finished (for the cancelled hash). -/
theorem C16_cancel_true_iff_handler_running (e : Env) (s : State) (hr : Reach e s) (h : Bytes)
    (hc : (cancelBlock s h).2 = true) : s.bh.called = true ∧ s.bh.done = none :=
  let hs := (C16_cancel_true_iff_started s h).mp hc
  ⟨((reach_blk_started e s hr) hs.2.2).2.1, ((reach_blk_started e s hr) hs.2.2).2.2⟩

/-- a cancel before the block message disarms `onStop` and drops the handler but keeps the request:
    the node stays busy until the block message has been handled. A cancel for another hash
    changes nothing. -/
theorem C16_cancel_keeps_request (s : State) (h : Bytes) (hr : s.blockReader = false) :
    (cancelBlock s h).1.blockReq = s.blockReq ∧ (cancelBlock s h).1.busy = s.busy ∧
    (s.blockReq = some h → (cancelBlock s h).1.onStopArmed = false ∧ (cancelBlock s h).1.blockHandler = false) ∧
    (s.blockReq ≠ some h → (cancelBlock s h).1 = s) := by
  unfold cancelBlock State.busy
  cases hq : s.blockReq with
  | none => simp [hq]
  | some want =>
    by_cases hw : want = h
    · subst hw
      simp [hr, hq]
    · have hw' : ¬ (some want = some h) := by intro hc; exact hw (Option.some.inj hc)
      simp [hw, hw', hq]

/-- an in-progress cancel ends the connection: the node is stopped and `onStop` is not invoked
    (neither now nor later). If the handler had been started the request is completed (not busy)
    and the handler has been given the end of its stream (it returned an error). -/
theorem C16_cancel_in_progress_ends (s : State) (h : Bytes) (hq : s.blockReq = some h)
    (hr : s.blockReader = true) :
    (cancelBlock s h).1.stopped = true ∧ (cancelBlock s h).1.onStopArmed = false ∧
    (cancelBlock s h).1.onStopCalls = s.onStopCalls ∧
    (s.blockStarted = true → (cancelBlock s h).1.busy = false ∧
      (s.bh.called = true → s.bh.done = none → (cancelBlock s h).1.bh.done = some false)) := by
  unfold cancelBlock
  simp only [hq, ne_eq, not_true_eq_false, ↓reduceIte, hr]
  by_cases hst : s.blockStarted = true
  · simp only [hst, ↓reduceIte]
    unfold connectionEnd streamFailed runEnd State.busy failedRec
    simp only [hr, hst, Bool.and_self, ↓reduceIte, completeBlock, hq, Bool.false_eq_true]
    refine ⟨by simp, by simp, by simp, fun _ => ⟨by simp, ?_⟩⟩
    intro h1 h2
    simp [h1, h2]
  · simp only [hst, Bool.false_eq_true, ↓reduceIte]
    unfold runEnd
    simp only [Bool.false_eq_true, ↓reduceIte]
    refine ⟨by simp, by simp, by simp, ?_⟩
    intro h'
    exact absurd h' (by simp)

/-- **one request at a time.** While a request is outstanding `RequestBlock` is refused and
    changes nothing; on an idle node it is accepted, the node is busy and `onStop` is armed. -/
theorem C16_request_while_busy_refused (s : State) (h : Bytes) :
    (s.busy = true → requestBlock? s h = none) ∧
    (s.busy = false → ∃ s' fx, requestBlock? s h = some (s', fx) ∧ s'.busy = true ∧ s'.onStopArmed = true ∧
      s'.blockReq = some h ∧ s'.blockReader = false) := by
  unfold requestBlock?
  constructor
  · intro hb; simp [hb]
  · intro hb; simp only [hb]; exact ⟨_, _, rfl, rfl, rfl, rfl, rfl⟩

theorem runEnd_disarms (s : State) : (runEnd s).1.onStopArmed = false := by
  unfold runEnd
  by_cases h : s.onStopArmed = true
  · simp [h]
  · simp only [h, Bool.false_eq_true, ↓reduceIte]

theorem connectionEnd_disarms (s : State) : (connectionEnd s).1.onStopArmed = false := by
  unfold connectionEnd; exact runEnd_disarms _

theorem streamFailed_armed (s : State) (h : s.onStopArmed = false) : (streamFailed s).onStopArmed = false := by
  unfold streamFailed
  by_cases hr : (s.blockReader && s.blockStarted) = true
  · simp only [hr, ↓reduceIte]
    cases hq : s.blockReq with
    | none => exact h
    | some x => simp only [completeBlock, hq, ↓reduceIte]
  · simp only [hr, Bool.false_eq_true, ↓reduceIte]; exact h

theorem connectionEnd_needs_armed (s : State) (h : s.onStopArmed = false) : (connectionEnd s).2 = false := by
  unfold connectionEnd runEnd
  simp [streamFailed_armed s h]

/-- **onStop at most once**: the end of `run()` disarms it, so a second end invokes nothing. -/
theorem C16_onstop_at_most_once (s : State) : (connectionEnd (connectionEnd s).1).2 = false :=
  connectionEnd_needs_armed _ (connectionEnd_disarms s)

/-- **onStop only for an outstanding, uncancelled request whose handler has not been started.**
    In every reachable state: if the end of the connection invokes `onStop` then a request is
    outstanding, its handler is still installed (not cancelled) and the handler thread was not
    started (the block message has not begun, or broke off before the transaction count). -/
theorem C16_onstop_only_outstanding (e : Env) (s : State) (h : Reach e s) (hc : (connectionEnd s).2 = true) :
    s.blockReq.isSome = true ∧ s.blockHandler = true ∧ s.blockStarted = false := by
  have hB := reach_blk e s h
  by_cases ha : s.onStopArmed = true
  · refine ⟨(hB.armed ha).1, (hB.armed ha).2, ?_⟩
    by_cases hst : s.blockStarted = true
    · exfalso
      have hr := (hB.started hst).1
      have hq := hB.reader hr
      cases hq' : s.blockReq with
      | none => rw [hq'] at hq; cases hq
      | some x =>
        unfold connectionEnd runEnd streamFailed at hc
        simp [hr, hst, hq', completeBlock] at hc
    · simpa using hst
  · rw [connectionEnd_needs_armed s (by simpa using ha)] at hc; cases hc

/-- conversely an outstanding, uncancelled request whose handler was not started IS reported:
    the end of the connection invokes `onStop` (exactly once, `C16_onstop_at_most_once`). -/
theorem C16_onstop_fires (s : State) (ha : s.onStopArmed = true) (hst : s.blockStarted = false) :
    (connectionEnd s).2 = true ∧ (connectionEnd s).1.onStopCalls = s.onStopCalls + 1 := by
  unfold connectionEnd streamFailed runEnd
  simp [hst, ha]

/-- **cancel before the block message, then the block arrives** (`C14_block_cancelled_exact`): the
    block frame is consumed to exactly its length (the next message — e.g. a ping,
    `C14_ping_after_any_sequence` — starts right behind it) or the connection ends. -/
theorem C16_cancelled_block_exact (e : Env) (he : EnvOk e) (s : State) (cmd p rest : Bytes)
    (hc : wfCmd cmd) (hp : p.length < 2 ^ 32) (h80 : 80 ≤ p.length)
    (hl : lookupCmd s.table cmd = some .block) (hreq : s.blockReq = some (e.hash (p.take 80)))
    (hh : s.blockHandler = false) :
    ExactOrEnd rest (handleMessage e s (classicFrame e cmd p ++ rest)) :=
  C14_block_cancelled_exact e he s cmd p rest hc hp h80 hl hreq hh

/-- after `completeBlock` of the outstanding request the node is idle. -/
theorem C16_complete_clears (s : State) (h : Bytes) (hq : s.blockReq = some h) :
    (completeBlock s h).busy = false ∧ (completeBlock s h).onStopArmed = false ∧
    (completeBlock s h).blockReader = false := by
  unfold completeBlock State.busy; simp [hq]

/-! ### non-vacuity -/

namespace Example

def idle : State := readyState
def asked : State := (requestBlock idle [1, 2, 3]).1
def streaming : State := { asked with blockReader := true }

example : Reach env0 (requestBlock (initState false true false 0) [1]).1 → True := fun _ => trivial
example : (requestBlock? idle [1, 2, 3]).isSome = true := by decide +kernel
example : (requestBlock? asked [9]).isNone = true := by decide +kernel
def started : State := { streaming with blockStarted := true, bh := { called := true, count := 3, got := 1 } }

example : (cancelBlock asked [1, 2, 3]).2 = false ∧ (cancelBlock streaming [1, 2, 3]).2 = false ∧
    (cancelBlock started [1, 2, 3]).2 = true ∧ (cancelBlock started [7]).2 = false ∧
    (cancelBlock started [1, 2, 3]).1.bh.done = some false := by decide +kernel
example : (connectionEnd asked).2 = true ∧ (connectionEnd (cancelBlock asked [1, 2, 3]).1).2 = false ∧
    (connectionEnd streaming).2 = true ∧ (connectionEnd started).2 = false := by decide +kernel
example : (cancelBlock asked [1, 2, 3]).1.busy = true := by decide +kernel

end Example

end BRV.Wire
