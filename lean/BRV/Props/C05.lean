/-
C05 — Best-chain blocks from the start height are processed in order, each once.

Property theorems about the executable model `BRV.Sync` (Model/Sync.lean) of
`NodeManager.synchronizeBlocks` / `TriggerBlockSynchronize` / `runSynchronizeBlocks`, which the `sync`
correspondence harness ties to /repo/node_manager.go on every run. Quantifiers: every header view
(`View`: any chain of distinct ids, any memory window), every start height, every processed set
(`proc : Id → Bool`), every finite sequence of events of the request loop (`List Ev`: poll ticks,
manager answers, interrupts and ARBITRARY view replacements, i.e. any reorg at any point), every
sequence of triggers / round ends of the restart-flag machine.

History: on the code as first examined three clauses were FALSE (witnesses were `decide`-checked
here and reproduced on the real code, corpus/C05/): block start−1 was requested when tip height =
start height; the round silently requested nothing once the walk-back left the in-memory header
window (and with only the genesis header); `close(abort)` could run twice (panic). The repository
was repaired (start test first; by-height fallback for pruned headers; per-request `aborted` flag and
nil-channel check). The model follows the repaired code, the former counterexamples are kept as
regression examples, and every clause below is now proved at full strength.
Known finding that remains (block manager, C16): a source outage of `noDownloadLimit`+1 ticks ends
`BlockManager.Run`; the waiting round is never told (`source-outage-wedges`).
-/
import BRV.Proofs.SyncInterleave

namespace BRV.Sync

/-! ## 1. the plan (`hashes`) -/

/-- the shape of the repaired code the model follows (breaks when the source changes shape). -/
theorem sync_shape_facts :
    Facts.syncWalkOrder = "start-test,PreviousHash,nil-fallback,processed-test,hash=prev,prepend,height--" ∧
    Facts.syncWalkStopOp = "<=" ∧ Facts.syncStartGuardOp = "<" ∧
    Facts.syncLastHashExpr = "m.headers.LastHash()" ∧
    Facts.syncLastHeightExpr = "m.headers.HashHeight(lashHash)" ∧
    abortGuarded = true ∧ nilChecked = true := by decide

/-- **C05 (the round never ends silently; works across the memory window).** For every view —
    whatever part of the chain has been pruned from memory — the first half of `synchronizeBlocks`
    ends in exactly one of: tip below the start height, tip already processed, or a plan. -/
theorem C05_plan_never_silent (v : View) (proc : Id → Bool) (start : Nat) (hv : v.WF) :
    planRes v proc start = .belowStart ∨ planRes v proc start = .inSync ∨
      ∃ l f, planRes v proc start = .plan l f := by
  have hT : v.tip < v.chain.length := by
    have := List.length_pos_iff.mpr hv.nonempty
    unfold View.tip; omega
  rw [planRes_eq_spec v proc start hv.nodup]
  unfold planSpec
  rw [getLast?_eq_tip, List.getElem?_eq_getElem hT]
  simp only
  split
  · exact Or.inl rfl
  · split
    · exact Or.inr (Or.inl rfl)
    · exact Or.inr (Or.inr (walkSpec_is_plan v proc start v.tip hT v.tip (Nat.le_refl _)))

/-- `fuelOut` is a model artefact: it is never produced. -/
theorem planRes_ne_fuelOut (v : View) (proc : Id → Bool) (start : Nat) (hv : v.WF) :
    planRes v proc start ≠ .fuelOut := by
  rcases C05_plan_never_silent v proc start hv with h | h | ⟨l, f, h⟩ <;> rw [h] <;> simp

/-- **C05 (exact characterisation of the plan).** A round reaches the request loop with requests
    `l` iff the tip is at or above the start height and unprocessed, and `l` is the best-chain
    segment `chain[f..tip]` with its heights, where `f` satisfies `condF`: `f ≤ start` or block
    `f−1` is processed, and every block in `[f, tip)` is unprocessed and not below `start`. -/
theorem C05_plan_exact (v : View) (proc : Id → Bool) (start : Nat) (hv : v.WF) (l : List (Id × Nat)) :
    plan v proc start = some l ↔
      (start ≤ v.tip ∧ (∀ x, v.chain[v.tip]? = some x → proc x = false) ∧
        ∃ f, condF v proc start f v.tip ∧ l = withHeights (slice v f v.tip) f) := by
  have hT : v.tip < v.chain.length := by
    have := List.length_pos_iff.mpr hv.nonempty
    unfold View.tip; omega
  have hlast : v.chain.getLast? = some v.chain[v.tip] := by
    rw [getLast?_eq_tip, List.getElem?_eq_getElem hT]
  unfold plan
  rw [planRes_eq_spec v proc start hv.nodup]
  unfold planSpec
  rw [hlast]
  simp only
  constructor
  · intro h
    by_cases h1 : v.tip < start
    · simp [h1] at h
    · simp only [h1, ↓reduceIte] at h
      by_cases h2 : proc v.chain[v.tip] = true
      · simp [h2] at h
      · have h2' : proc v.chain[v.tip] = false := by simpa using h2
        simp only [h2', Bool.false_eq_true, ↓reduceIte] at h
        split at h
        · rename_i l0 f hw
          cases h
          obtain ⟨hl, hc⟩ := walkSpec_sound v proc start v.tip v.tip l0 f (Nat.le_refl _) hT hw
          refine ⟨by omega, ?_, f, hc, by rw [hl]⟩
          intro x hx
          rw [List.getElem?_eq_getElem hT] at hx
          cases hx; exact h2'
        · cases h
  · rintro ⟨h1, h2, f, hc, rfl⟩
    have h2' := h2 _ (List.getElem?_eq_getElem hT)
    have : ¬ v.tip < start := by omega
    simp only [this, ↓reduceIte, h2', Bool.false_eq_true]
    rw [walkSpec_complete v proc start v.tip v.tip f (Nat.le_refl _) hT hc]

/-- **C05 (up to the tip, always).** Whenever the tip is at or above the start height and
    unprocessed, the round has a non-empty plan — for every memory window. -/
theorem C05_plan_total (v : View) (proc : Id → Bool) (start : Nat) (hv : v.WF)
    (hs : start ≤ v.tip) (htip : ∀ x, v.chain[v.tip]? = some x → proc x = false) :
    ∃ l, plan v proc start = some l ∧ l ≠ [] := by
  have hT : v.tip < v.chain.length := by
    have := List.length_pos_iff.mpr hv.nonempty
    unfold View.tip; omega
  obtain ⟨l0, f, hw⟩ := walkSpec_is_plan v proc start v.tip hT v.tip (Nat.le_refl _)
  obtain ⟨hl, hc⟩ := walkSpec_sound v proc start v.tip v.tip l0 f (Nat.le_refl _) hT hw
  refine ⟨withHeights (slice v f v.tip) f, (C05_plan_exact v proc start hv _).mpr ⟨hs, htip, f, hc, rfl⟩, ?_⟩
  intro hnil
  have := congrArg List.length hnil
  rw [withHeights_length, slice_length v f v.tip hT] at this
  have := hc.1
  simp at *
  omega

/-- **C05 (strictly ascending, contiguous, ending at the tip).** The planned requests are the
    best-chain blocks at heights `f, f+1, …, tip`, each paired with its own height. -/
theorem C05_plan_ascending_contiguous (v : View) (proc : Id → Bool) (start : Nat) (hv : v.WF)
    (l : List (Id × Nat)) (h : plan v proc start = some l) :
    ∃ f, f + l.length = v.tip + 1 ∧
      ∀ i, i < l.length → l[i]? = (v.chain[f + i]?).map (fun x => (x, f + i)) := by
  obtain ⟨_, _, f, hc, rfl⟩ := (C05_plan_exact v proc start hv l).mp h
  have hT : v.tip < v.chain.length := by
    have := List.length_pos_iff.mpr hv.nonempty
    unfold View.tip; omega
  have hf := hc.1
  refine ⟨f, ?_, ?_⟩
  · rw [withHeights_length, slice_length v f v.tip hT]; omega
  · intro i hi
    rw [withHeights_length, slice_length v f v.tip hT] at hi
    rw [withHeights_getElem?, slice_getElem? v f v.tip i (by omega)]

/-- **C05 (every planned block is on the best chain at plan time, unprocessed, and never below the
    start height).** -/
theorem C05_plan_fresh (v : View) (proc : Id → Bool) (start : Nat) (hv : v.WF)
    (l : List (Id × Nat)) (h : plan v proc start = some l) :
    ∀ p ∈ l, v.chain[p.2]? = some p.1 ∧ proc p.1 = false ∧ p.2 ≤ v.tip ∧ start ≤ p.2 := by
  obtain ⟨hs, htip, f, hc, hl⟩ := (C05_plan_exact v proc start hv l).mp h
  obtain ⟨f', hlen, hget⟩ := C05_plan_ascending_contiguous v proc start hv l h
  have hT : v.tip < v.chain.length := by
    have := List.length_pos_iff.mpr hv.nonempty
    unfold View.tip; omega
  have hff : f' = f := by
    have : l.length = v.tip + 1 - f := by
      rw [hl, withHeights_length, slice_length v f v.tip hT]
    have := hc.1
    omega
  subst hff
  have hfs := condF_ge_start v proc start f' v.tip hs hc
  intro p hp
  obtain ⟨i, hi, hpi⟩ := List.getElem_of_mem hp
  have hgi := hget i hi
  rw [List.getElem?_eq_getElem hi, hpi] at hgi
  have hk : f' + i < v.chain.length := by omega
  rw [List.getElem?_eq_getElem hk] at hgi
  simp only [Option.map_some, Option.some.injEq] at hgi
  have hp1 : p.1 = v.chain[f' + i] := by rw [hgi]
  have hp2 : p.2 = f' + i := by rw [hgi]
  have hch : v.chain[p.2]? = some p.1 := by
    rw [hp2, hp1]; exact List.getElem?_eq_getElem hk
  refine ⟨hch, ?_, by omega, by omega⟩
  by_cases hlast : p.2 = v.tip
  · exact htip p.1 (hlast ▸ hch)
  · exact (hc.2.2 p.2 (by omega) (by omega)).2 p.1 hch

/-- the first height the property asks for: `max(start, lastProcessedOnChain + 1)`. -/
def expectedFirst (v : View) (proc : Id → Bool) (start : Nat) : Nat :=
  max start (match lastProcBelow v proc v.tip with | some q => q + 1 | none => 0)

/-- **C05 (the plan starts right).** The first planned height is `max(start, q+1)` where `q` is the
    highest processed best-chain block below the tip — in every case, including tip = start. -/
theorem C05_plan_starts_right (v : View) (proc : Id → Bool) (start : Nat) (hv : v.WF)
    (l : List (Id × Nat)) (h : plan v proc start = some l) :
    ∃ x, l.head? = some (x, expectedFirst v proc start) := by
  obtain ⟨hs, htp, f, hc, hl⟩ := (C05_plan_exact v proc start hv l).mp h
  have hT : v.tip < v.chain.length := by
    have := List.length_pos_iff.mpr hv.nonempty
    unfold View.tip; omega
  have hf := hc.1
  have hfs := condF_ge_start v proc start f v.tip hs hc
  have hfl : f < v.chain.length := by omega
  have hhead : l.head? = some (v.chain[f], f) := by
    rw [hl, slice_cons v f v.tip _ hT hf (List.getElem?_eq_getElem hfl)]
    simp [withHeights]
  refine ⟨v.chain[f], ?_⟩
  rw [hhead]
  suffices expectedFirst v proc start = f by rw [this]
  unfold expectedFirst
  obtain ⟨c1, c2, c3⟩ := hc
  have hskip := lastProcBelow_skip v proc f v.tip c1 (fun k h1 h2 => (c3 k h1 h2).2)
  rw [hskip]
  rcases c2 with c2 | ⟨c2, x, hx, hxp⟩
  · -- f ≤ start, hence f = start: whatever is processed lies below the start height
    have hfe : f = start := by omega
    cases hq : lastProcBelow v proc f with
    | none => simp; omega
    | some q =>
      have := lastProcBelow_lt v proc f q hq
      simp only
      omega
  · have hlp : lastProcBelow v proc f = some (f - 1) := by
      obtain ⟨g, rfl⟩ : ∃ g, f = g + 1 := ⟨f - 1, by omega⟩
      simp only [Nat.add_sub_cancel] at hx ⊢
      simp [lastProcBelow, hx, hxp]
    rw [hlp]
    simp only
    omega

/-! ### the former counterexamples, now regression examples (closed terms, `decide`) -/

/-- tip height = start height 3, nothing processed: only block 3 is planned (was: 2 and 3). -/
theorem C05_boundary_regression :
    plan { chain := [0, 1, 2, 3] } (fun _ => false) 3 = some [(3, 3)] ∧
    expectedFirst { chain := [0, 1, 2, 3] } (fun _ => false) 3 = 3 := by decide

/-- heights 0..8, headers below height 5 pruned from memory, start height 2: the plan is heights
    2..8 (was: the round silently returned, in every later round too). -/
theorem C05_window_regression :
    plan { chain := [0, 1, 2, 3, 4, 5, 6, 7, 8], window := 5 } (fun _ => false) 2
      = some [(2, 2), (3, 3), (4, 4), (5, 5), (6, 6), (7, 7), (8, 8)] := by decide

/-- start height 0 and only the genesis header: genesis is planned (was: nothing). -/
theorem C05_genesis_regression :
    plan { chain := [0] } (fun _ => false) 0 = some [(0, 0)] := by decide

/-! ## 1b. the plan when new headers or a reorg arrive BETWEEN the round's own reads

`planResE` reads the header repository once per call, in the order of the source
(`LastHash`, `HashHeight(lashHash)`, then per loop iteration `PreviousHash` and, for pruned headers,
`Hash(height)`, `Hash(height−1)`); the environment `E` may present a different view at every read.
All views are views of one block tree `G` (parent and height of a block never change). -/

/-- **C05 under arbitrary interleaving of header changes with the walk-back.** Whatever the
    repository does between the reads, if the round reaches the request loop with `hashes = l`,
    first height `f`, then:
    * `l` is a chain by parent links that ends at the hash returned by the round's `LastHash` call
      (the best-chain tip at that moment),
    * the height the loop passes along with the i-th hash (`f + i`) is that block's TRUE height —
      the heights belong to the hash that was read, not to whatever the tip is later,
    * no planned block is recorded as processed, none is below the start height,
    * the plan starts right: `f = start`, or the parent of the first block is processed.
    (What is NOT claimed, deliberately: that `l` is still on the best chain at the END of the
    walk-back — after a reorg in between it is the old chain; the 10 s poll of the request loop
    abandons it, `C05_orphan_abandoned`.) -/
theorem C05_interleaved_plan (G : Tree) (hG : G.WF) (E : Env) (hE : ∀ hist, (E hist).Cons G)
    (hF : PrunedFinal E) (proc : Id → Bool) (start : Nat) (l : List Id) (f : Nat) (hist' : List Call)
    (h : planResE E proc start = (.plan l f, hist')) :
    ∃ last, (E []).lastHash = some last ∧ l.getLast? = some last ∧ Linked G l ∧
      (∀ i x, l[i]? = some x → G.height x = f + i) ∧
      (∀ x ∈ l, proc x = false) ∧ start ≤ f ∧
      (f = start ∨ ∃ hd p, l.head? = some hd ∧ G.parent hd = some p ∧ proc p = true) := by
  obtain ⟨last, h1, ok⟩ := planResE_ok G hG E hE hF proc start l f hist' h
  obtain ⟨hd, hh, hf, hc⟩ := ok.head
  refine ⟨last, h1, ok.last, ok.linked, ?_, ok.fresh, ok.ge, ?_⟩
  · intro i x hx
    rw [← hf]
    exact linked_heights G hG l hd hh ok.linked i x hx
  · rcases hc with hc | ⟨p, hp1, hp2⟩
    · left; have := ok.ge; omega
    · right; exact ⟨hd, p, hh, hp1, hp2⟩

/-- the same, stated on the (hash, height) pairs handed to `AddRequest`: every pair carries the
    block's true height, at or above the start height, and the block is unprocessed. -/
theorem C05_interleaved_requests_labelled (G : Tree) (hG : G.WF) (E : Env) (hE : ∀ hist, (E hist).Cons G)
    (hF : PrunedFinal E) (proc : Id → Bool) (start : Nat) :
    ∀ p ∈ (planResE E proc start).1.reqList, G.height p.1 = p.2 ∧ start ≤ p.2 ∧ proc p.1 = false := by
  intro p hp
  cases hr : planResE E proc start with
  | mk r hist' =>
    rw [hr] at hp
    cases r with
    | plan l f =>
      obtain ⟨last, _, _, _, hh, hfr, hge, _⟩ := C05_interleaved_plan G hG E hE hF proc start l f hist' hr
      simp only [PlanRes.reqList] at hp
      obtain ⟨i, hi, hpi⟩ := List.getElem_of_mem hp
      have hg : (withHeights l f)[i]? = some p := by rw [List.getElem?_eq_getElem hi, hpi]
      rw [withHeights_getElem?] at hg
      cases hli : l[i]? with
      | none => rw [hli] at hg; cases hg
      | some x =>
        rw [hli] at hg
        simp only [Option.map_some, Option.some.injEq] at hg
        subst hg
        exact ⟨hh i x hli, by omega, hfr x (List.mem_of_getElem? hli)⟩
    | noTip => simp [PlanRes.reqList] at hp
    | belowStart => simp [PlanRes.reqList] at hp
    | inSync => simp [PlanRes.reqList] at hp
    | lost => simp [PlanRes.reqList] at hp
    | errPrevHash => simp [PlanRes.reqList] at hp
    | fuelOut => simp [PlanRes.reqList] at hp

/-- a repository that stays put during the walk-back gives exactly the atomic semantics of
    section 1 (so all of section 1 is the special case of a quiet tip). -/
theorem C05_interleaved_atomic (v : View) (proc : Id → Bool) (start : Nat) :
    (planResE (fun _ => v) proc start).1 = planRes v proc start := planResE_const v proc start

/-- the request-loop theorems hold for a round whose plan was computed under interleaving:
    requests are a prefix of that plan, no panic. -/
theorem C05_interleaved_requests_prefix (s : S) (E : Env) (evs : List Ev) :
    (run (startRoundE s E) evs).reqs <+: (planResE E s.isProcessed s.start).1.reqList := by
  unfold startRoundE
  have h := reqInv_startRoundWith { s with view := E (planResE E s.isProcessed s.start).2 }
    (planResE E s.isProcessed s.start).1
  exact reqInv_prefix _ _ (reqInv_run _ _ evs h)

theorem C05_interleaved_no_panic (s : S) (E : Env) (evs : List Ev) :
    (run (startRoundE s E) evs).rs ≠ .ended .panicDoubleClose ∧
    (run (startRoundE s E) evs).rs ≠ .ended .panicNilClose := by
  have h0 : NoPanic (startRoundE s E) := noPanic_startRoundWith _ _
  have : ∀ (evs : List Ev) (s' : S), NoPanic s' → NoPanic (run s' evs) := by
    intro evs
    induction evs with
    | nil => intro s' h; exact h
    | cons e es ih => intro s' h; exact ih _ (noPanic_step _ e h)
  have h := this evs _ h0
  generalize run (startRoundE s E) evs = s' at h
  unfold NoPanic at h
  split at h
  · rename_i w hw; simp [hw]
  · rename_i e he
    rw [he]
    exact ⟨by intro hc; cases hc; exact h.1 rfl, by intro hc; cases hc; exact h.2 rfl⟩

/-! non-vacuity: a header arrives right after `LastHash` returned; a reorg right after it -/

def exTree : Tree :=
  { parent := fun x =>
      if x = 0 then none else if x ≤ 8 then some (x - 1)
      else if x = 20 then some 6 else if x = 21 then some 20 else if x = 22 then some 21 else none,
    height := fun x =>
      if x ≤ 8 then x else if x = 20 then 7 else if x = 21 then 8 else if x = 22 then 9 else 0 }

/-- tip 8 when `LastHash` is read, block 9 arrives before `HashHeight`: the plan is 5..8 with
    their own heights (the code asks for the height OF THE HASH it read). -/
example : (planResE (injectEnv { chain := [0, 1, 2, 3, 4, 5, 6, 7, 8] }
      { chain := [0, 1, 2, 3, 4, 5, 6, 7, 8, 9] } .lastHash 1) (fun _ => false) 5).1
    = .plan [5, 6, 7, 8] 5 := by decide
/-- a reorg (7,8 replaced by 20,21,22) lands after the first `PreviousHash`: the old chain is
    planned with its true heights; the request loop's poll will abandon it. -/
example : (planResE (injectEnv { chain := [0, 1, 2, 3, 4, 5, 6, 7, 8] }
      { chain := [0, 1, 2, 3, 4, 5, 6, 20, 21, 22], side := [(7, 7, 6), (8, 8, 7)] } .previousHash 1)
      (fun _ => false) 5).1 = .plan [5, 6, 7, 8] 5 := by decide
example : exTree.WF := by
  intro (x : Nat) (p : Nat) h
  simp only [exTree] at h ⊢
  by_cases h0 : x = 0
  · simp [h0] at h
  · by_cases h8 : x ≤ 8
    · simp only [h0, h8, ↓reduceIte, Option.some.injEq] at h
      subst h
      have h7 : x - 1 ≤ 8 := by omega
      simp only [h8, h7, ↓reduceIte]
      omega
    · by_cases h20 : x = 20
      · subst h20; simp at h; subst h; decide
      · by_cases h21 : x = 21
        · subst h21; simp at h; subst h; decide
        · by_cases h22 : x = 22
          · subst h22; simp at h; subst h; decide
          · simp [h0, h8, h20, h21, h22] at h
example : (View.mk [0, 1, 2, 3, 4, 5, 6, 20, 21, 22] 0 [(7, 7, 6), (8, 8, 7)]).Cons exTree := by
  refine ⟨?_, ?_, ?_⟩
  · intro h x hx
    have hl : h < 10 := by
      have := (List.getElem?_eq_some_iff.mp hx).1; simpa using this
    have : h = 0 ∨ h = 1 ∨ h = 2 ∨ h = 3 ∨ h = 4 ∨ h = 5 ∨ h = 6 ∨ h = 7 ∨ h = 8 ∨ h = 9 := by omega
    rcases this with rfl | rfl | rfl | rfl | rfl | rfl | rfl | rfl | rfl | rfl <;>
      (simp at hx; subst hx; decide)
  · intro h x y hx hy
    have hl : h + 1 < 10 := by
      have := (List.getElem?_eq_some_iff.mp hy).1; simpa using this
    have : h = 0 ∨ h = 1 ∨ h = 2 ∨ h = 3 ∨ h = 4 ∨ h = 5 ∨ h = 6 ∨ h = 7 ∨ h = 8 := by omega
    rcases this with rfl | rfl | rfl | rfl | rfl | rfl | rfl | rfl | rfl <;>
      (simp at hx hy; subst hx; subst hy; decide)
  · intro x h p hm
    simp at hm
    rcases hm with ⟨rfl, rfl, rfl⟩ | ⟨rfl, rfl, rfl⟩ <;> decide

/-! ## 2. the request loop: every interleaving of polls, manager answers, interrupts and reorgs -/

/-- **C05 (each at most once per round; requests are a prefix of the plan).** Whatever events
    follow the start of a round — including arbitrary replacements of the header view — the
    `AddRequest` calls of the round are a prefix of the plan computed at its start. -/
theorem C05_round_requests_prefix (s : S) (evs : List Ev) :
    (run (startRound s) evs).reqs <+: (plan s.view s.isProcessed s.start).getD [] :=
  reqInv_prefix _ _ (reqInv_run _ _ evs (reqInv_startRound s))

/-- no (hash, height) request is repeated within a round. -/
theorem C05_round_at_most_once (s : S) (evs : List Ev) : (run (startRound s) evs).reqs.Nodup := by
  have hp := C05_round_requests_prefix s evs
  have hn : ((plan s.view s.isProcessed s.start).getD []).Nodup := by
    unfold plan
    split
    · simp only [Option.getD_some]; exact withHeights_nodup _ _
    · simp
  exact List.Sublist.nodup hp.sublist hn

/-- and no block id is repeated either (ids on the best chain are distinct). -/
theorem C05_round_ids_at_most_once (s : S) (evs : List Ev) (hv : s.view.WF) :
    ((run (startRound s) evs).reqs.map (·.1)).Nodup := by
  have hp := C05_round_requests_prefix s evs
  have hn : (((plan s.view s.isProcessed s.start).getD []).map (·.1)).Nodup := by
    cases hpl : plan s.view s.isProcessed s.start with
    | none => simp
    | some l =>
      simp only [Option.getD_some]
      obtain ⟨_, _, f, _, rfl⟩ := (C05_plan_exact _ _ _ hv l).mp hpl
      have : ∀ (l : List Id) (h : Nat), (withHeights l h).map (·.1) = l := by
        intro l
        induction l with
        | nil => intro h; rfl
        | cons x xs ih => intro h; simp [withHeights, ih]
      rw [this]
      unfold slice
      exact List.Sublist.nodup ((List.drop_sublist _ _).trans (List.take_sublist _ _)) hv.nodup
  exact List.Sublist.nodup (List.Sublist.map _ hp.sublist) hn

/-- **C05 (processing follows the requests, each once).** After any events, what the round has
    recorded as processed is exactly the ids of a prefix of its requests (hence of the plan), in
    order: all of them or all but the outstanding one. -/
theorem C05_processed_exactly_completed (s : S) (evs : List Ev) :
    ∃ done, done <+: (run (startRound s) evs).reqs ∧
      (run (startRound s) evs).processed = s.processed ++ done.map (·.1) := by
  have h : ProcInv s.processed (run (startRound s) evs) := by
    have : ∀ (evs : List Ev) (s' : S), ProcInv s.processed s' → ProcInv s.processed (run s' evs) := by
      intro evs
      induction evs with
      | nil => intro s' h; exact h
      | cons e es ih => intro s' h; exact ih _ (procInv_step _ _ e h)
    exact this evs _ (procInv_startRound s)
  generalize run (startRound s) evs = s' at h
  unfold ProcInv at h
  split at h
  · obtain ⟨pre, h1, h2⟩ := h
    exact ⟨pre, by rw [h1]; exact List.prefix_append _ _, h2⟩
  · exact ⟨s'.reqs, List.prefix_refl _, h⟩
  · exact ⟨s'.reqs, List.prefix_refl _, h⟩
  · exact ⟨s'.reqs.dropLast, List.dropLast_prefix _, h⟩

/-- **C05 (never a block already recorded as processed).** A round never records a block twice:
    if the processed list was duplicate-free before the round it still is, whatever happens. -/
theorem C05_processed_stays_nodup (s : S) (evs : List Ev) (hv : s.view.WF) (hn : s.processed.Nodup) :
    (run (startRound s) evs).processed.Nodup := by
  obtain ⟨done, hd, hp⟩ := C05_processed_exactly_completed s evs
  have hpre : done <+: (plan s.view s.isProcessed s.start).getD [] :=
    hd.trans (C05_round_requests_prefix s evs)
  rw [hp, List.nodup_append]
  refine ⟨hn, ?_, ?_⟩
  · exact List.Sublist.nodup (List.Sublist.map _ hd.sublist) (C05_round_ids_at_most_once s evs hv)
  · intro a ha b hb hab
    subst hab
    obtain ⟨p, hpm, rfl⟩ := List.mem_map.mp hb
    cases hpl : plan s.view s.isProcessed s.start with
    | none => rw [hpl] at hpre; simp at hpre; subst hpre; simp at hpm
    | some l =>
      rw [hpl] at hpre
      have hin : p ∈ l := hpre.subset hpm
      have := (C05_plan_fresh _ _ _ hv l hpl p hin).2.1
      simp [S.isProcessed, ha] at this

/-- **C05 (up to the tip, when every request completes).** If the manager answers every request
    with a completion, the round finishes, having requested the whole plan and recorded exactly
    its blocks, in order. -/
theorem C05_round_completes (s : S) (l : List (Id × Nat)) (hm : s.mgrClosed = false)
    (hp : plan s.view s.isProcessed s.start = some l) :
    let s' := run (startRound s) (List.replicate l.length .complete)
    s'.rs = .ended .finished ∧ s'.reqs = l ∧ s'.processed = s.processed ++ l.map (·.1) := by
  have key : ∀ (rest : List Id) (u : S) (x : Id) (h : Nat),
      u.rs = .waiting { hash := x, height := h, rest := rest, nilChans := false } →
      u.mgrClosed = false →
      (run u (List.replicate (rest.length + 1) .complete)).rs = .ended .finished ∧
      (run u (List.replicate (rest.length + 1) .complete)).reqs = u.reqs ++ withHeights rest (h + 1) ∧
      (run u (List.replicate (rest.length + 1) .complete)).processed = u.processed ++ x :: rest := by
    intro rest
    induction rest with
    | nil =>
      intro u x h hu _
      simp [run, step, hu, withHeights]
    | cons n rest ih =>
      intro u x h hu hmc
      simp only [List.length_cons, List.replicate_succ, run, List.foldl_cons]
      have hs : step u .complete =
          addRequest { u with processed := u.processed ++ [x] } n (h + 1) rest := by
        simp [step, hu]
      have hopen := addRequest_open { u with processed := u.processed ++ [x] } n (h + 1) rest
        (by simpa using hmc)
      have e1 : (step u .complete).rs =
          .waiting { hash := n, height := h + 1, rest := rest, nilChans := false } := by
        rw [hs, hopen]
      have e2 : (step u .complete).mgrClosed = false := by rw [hs, hopen]; simpa using hmc
      have e3 : (step u .complete).reqs = u.reqs ++ [(n, h + 1)] := by rw [hs, hopen]
      have e4 : (step u .complete).processed = u.processed ++ [x] := by rw [hs, hopen]
      obtain ⟨h1, h2, h3⟩ := ih (step u .complete) n (h + 1) e1 e2
      simp only [run, List.replicate_succ, List.foldl_cons] at h1 h2 h3
      refine ⟨h1, ?_, ?_⟩
      · rw [h2, e3]; simp [withHeights]
      · rw [h3, e4]; simp
  intro s'
  unfold plan at hp
  split at hp
  · rename_i l0 h0 hpr
    cases hp
    cases l0 with
    | nil => simp [s', startRound, hpr, startRoundWith, withHeights, run]
    | cons x xs =>
      have hsr : startRound s = addRequest { s with reqs := [] } x h0 xs := by
        simp [startRound, hpr, startRoundWith]
      have hopen := addRequest_open { s with reqs := [] } x h0 xs (by simpa using hm)
      have e1 : (startRound s).rs =
          .waiting { hash := x, height := h0, rest := xs, nilChans := false } := by
        rw [hsr, hopen]
      have e2 : (startRound s).mgrClosed = false := by rw [hsr, hopen]; simpa using hm
      have e3 : (startRound s).reqs = [(x, h0)] := by rw [hsr, hopen]; simp
      have e4 : (startRound s).processed = s.processed := by rw [hsr, hopen]
      have hs' : s' = run (startRound s) (List.replicate (xs.length + 1) .complete) := by
        simp [s', withHeights_length]
      rw [hs']
      obtain ⟨h1, h2, h3⟩ := key xs (startRound s) x h0 e1 e2
      refine ⟨h1, ?_, ?_⟩
      · rw [h2, e3]; simp [withHeights]
      · rw [h3, e4]; simp [withHeights, withHeights_map_fst]
  · cases hp

/-- **C05 (an orphaned outstanding block is abandoned, no stall).** If the block being waited for
    is no longer the best-chain block at its height, the next poll closes `abort`; the view may keep
    changing arbitrarily; as soon as the block manager answers, the round ends (`aborted`) —
    it does not wait for the orphan. -/
theorem C05_orphan_abandoned (s : S) (w : Wait) (x : Id) (views : List View)
    (hw : s.rs = .waiting w) (hn : w.nilChans = false) (ha : w.abortClosed = false)
    (hx : s.view.hashAt w.height = some x) (hne : x ≠ w.hash) :
    (run s (.poll :: views.map Ev.setView ++ [.aborted])).rs = .ended .aborted := by
  have h1 : (step s .poll).rs = .waiting { w with abortClosed := true } := by
    simp [step, hw, hx, hne, hn, ha]
  have h2 : ∀ (vs : List View) (s' : S), s'.rs = .waiting { w with abortClosed := true } →
      (run s' (vs.map Ev.setView)).rs = .waiting { w with abortClosed := true } := by
    intro vs
    induction vs with
    | nil => intro s' h; exact h
    | cons v vs ih =>
      intro s' h
      simp only [List.map_cons, run, List.foldl_cons]
      exact ih _ (by simp [step, h])
  simp only [run, List.foldl_cons, List.foldl_append, List.foldl_nil]
  have h3 := h2 views (step s .poll) h1
  simp only [run] at h3
  generalize List.foldl step (step s .poll) (views.map Ev.setView) = s2 at h3
  simp [step, h3, hn]

/-- a poll on a height beyond the new tip ends the round with the `header hash` error. -/
theorem C05_poll_beyond_tip (s : S) (w : Wait) (hw : s.rs = .waiting w)
    (hx : s.view.hashAt w.height = none) : (step s .poll).rs = .ended .errHeaderHash := by
  simp [step, hw, hx]

/-- a block still on the best chain at its height is never aborted by a poll. -/
theorem C05_poll_keeps_best_chain_block (s : S) (w : Wait) (hw : s.rs = .waiting w)
    (hx : s.view.hashAt w.height = some w.hash) : step s .poll = s := by
  simp [step, hw, hx]

/-- **C05 (`abort` is closed at most once).** Once the abort channel is closed, further polls that
    still find the block orphaned change nothing (before the repair the second one panicked with
    "close of closed channel"; reproduced then by corpus/C05/slow-double-close.ops). -/
theorem C05_second_poll_harmless (s : S) (w : Wait) (hw : s.rs = .waiting w)
    (ha : w.abortClosed = true) (hn : w.nilChans = false)
    (hx : s.view.hashAt w.height ≠ none) : step s .poll = s := by
  have hg : abortGuarded = true := by decide
  cases hh : s.view.hashAt w.height with
  | none => exact absurd hh hx
  | some x =>
    by_cases hxe : x = w.hash
    · simp [step, hw, hh, hxe]
    · simp [step, hw, hh, hxe, hn, ha, hg]

/-- **C05 (no panic is reachable).** From the start of any round, under every sequence of polls,
    manager answers, interrupts and view changes — with the block manager running or stopped —
    the round never executes `close` on a closed or nil channel. -/
theorem C05_no_panic (s : S) (evs : List Ev) :
    (run (startRound s) evs).rs ≠ .ended .panicDoubleClose ∧
    (run (startRound s) evs).rs ≠ .ended .panicNilClose := by
  have h0 : NoPanic (startRound s) := by
    unfold startRound
    cases planRes s.view s.isProcessed s.start with
    | plan l h0 =>
      cases l with
      | nil => simp [NoPanic, startRoundWith]
      | cons x xs => exact noPanic_addRequest _ _ _ _
    | noTip => simp [NoPanic, startRoundWith]
    | belowStart => simp [NoPanic, startRoundWith]
    | inSync => simp [NoPanic, startRoundWith]
    | lost => simp [NoPanic, startRoundWith]
    | errPrevHash => simp [NoPanic, startRoundWith]
    | fuelOut => simp [NoPanic, startRoundWith]
  have : ∀ (evs : List Ev) (s' : S), NoPanic s' → NoPanic (run s' evs) := by
    intro evs
    induction evs with
    | nil => intro s' h; exact h
    | cons e es ih => intro s' h; exact ih _ (noPanic_step _ e h)
  have h := this evs _ h0
  generalize run (startRound s) evs = s' at h
  unfold NoPanic at h
  split at h
  · rename_i w hw; simp [hw]
  · rename_i e he
    rw [he]
    exact ⟨by intro hc; cases hc; exact h.1 rfl, by intro hc; cases hc; exact h.2 rfl⟩

/-- when the block manager has stopped (its request queue is closed) a round returns at once
    instead of waiting on nil channels. -/
theorem C05_stopped_manager_returns (s : S) (hm : s.mgrClosed = true) :
    ∃ e, (startRound s).rs = .ended e := by
  have hn : nilChecked = true := by decide
  unfold startRound
  cases planRes s.view s.isProcessed s.start with
  | plan l h0 =>
    cases l with
    | nil => exact ⟨_, rfl⟩
    | cons x xs => exact ⟨.mgrStopped, by simp [startRoundWith, addRequest, hm, hn]⟩
  | noTip => exact ⟨_, rfl⟩
  | belowStart => exact ⟨_, rfl⟩
  | inSync => exact ⟨_, rfl⟩
  | lost => exact ⟨_, rfl⟩
  | errPrevHash => exact ⟨_, rfl⟩
  | fuelOut => exact ⟨_, rfl⟩

/-! ## 3. the restart flag -/

/-- **C05 (a trigger during a round is not lost).** While `runSynchronizeBlocks` is inside a round,
    any number (≥ 1) of triggers set the flag, and when the round returns normally another round
    starts in the same thread. -/
theorem C05_trigger_not_lost (t : T) (hd : t.delayDone = true) (hr : t.thread = .running) (n : Nat) :
    let t' := trun t (List.replicate (n + 1) .trigger ++ [.roundEnd .ok])
    t'.rounds = t.rounds + 1 ∧ t'.thread = .running ∧ t'.flag = false := by
  have key : ∀ (m : Nat) (u : T), u.delayDone = true → u.thread = .running →
      (trun u (List.replicate m .trigger)).thread = .running ∧
      (trun u (List.replicate m .trigger)).rounds = u.rounds ∧
      (trun u (List.replicate m .trigger)).delayDone = true ∧
      ((trun u (List.replicate m .trigger)).flag = true ∨ (m = 0 ∧ (trun u (List.replicate m .trigger)).flag = u.flag)) := by
    intro m
    induction m with
    | zero => intro u h1 h2; simp [trun, h1, h2]
    | succ m ih =>
      intro u h1 h2
      simp only [List.replicate_succ, trun, List.foldl_cons]
      have hs : tstep u .trigger = { u with flag := true } := by
        simp [tstep, trigger, h1, h2]
      rw [hs]
      obtain ⟨a, b, c, d⟩ := ih { u with flag := true } h1 h2
      simp only [trun] at a b c d
      refine ⟨a, b, c, Or.inl ?_⟩
      rcases d with d | ⟨_, d⟩
      · exact d
      · rw [d]
  intro t'
  obtain ⟨a, b, _, d⟩ := key (n + 1) t hd hr
  have hf : (trun t (List.replicate (n + 1) .trigger)).flag = true := by
    rcases d with d | ⟨d, _⟩
    · exact d
    · omega
  have ht' : t' = tstep (trun t (List.replicate (n + 1) .trigger)) (.roundEnd .ok) := by
    simp only [t', trun, List.foldl_append, List.foldl_cons, List.foldl_nil]
  rw [ht']
  generalize trun t (List.replicate (n + 1) .trigger) = u at a b hf
  simp [tstep, a, b, hf]

/-- the narrow window in which a trigger IS delayed: after `runSynchronizeBlocks` has read the flag
    and before the thread is marked complete. The flag is set, no round starts; the next trigger
    after the thread completed starts one. -/
theorem C05_trigger_in_exit_window (t : T) (hd : t.delayDone = true) (he : t.thread = .exiting) :
    (trun t [.trigger, .markComplete]).rounds = t.rounds ∧
    (trun t [.trigger, .markComplete]).thread = .complete ∧
    (trun t [.trigger, .markComplete, .trigger]).rounds = t.rounds + 1 := by
  simp [trun, tstep, trigger, hd, he]

/-- **after a panic inside the thread no round ever starts again** (`isComplete` is only set on a
    normal return, so every later trigger just sets the flag). -/
theorem C05_panic_wedges (t : T) (h : t.thread = .dead) (evs : List TEv) :
    (trun t evs).rounds = t.rounds ∧ (trun t evs).thread = .dead := by
  induction evs generalizing t with
  | nil => exact ⟨rfl, h⟩
  | cons e es ih =>
    simp only [trun, List.foldl_cons]
    obtain ⟨h1, h2⟩ := tstep_dead t e h
    obtain ⟨h3, h4⟩ := ih (tstep t e) h1
    simp only [trun] at h3 h4
    exact ⟨by rw [h3, h2], h4⟩

/-! ## non-vacuity: hypotheses are met by concrete non-trivial states -/

def exView : View := { chain := [10, 11, 12, 13, 14, 15, 16], window := 2 }

theorem exView_wf : exView.WF := ⟨by decide, by decide⟩

/-- processed: blocks 11 and 13 (a hole at 12); start height 1; the plan is heights 4..6. -/
example : plan exView (fun x => x == 11 || x == 13) 1 = some [(14, 4), (15, 5), (16, 6)] := by decide
example : expectedFirst exView (fun x => x == 11 || x == 13) 1 = 4 := by decide
example : condF exView (fun x => x == 11 || x == 13) 1 4 exView.tip := by
  refine ⟨by decide, Or.inr ⟨by decide, 13, by decide, by decide⟩, ?_⟩
  intro k h1 h2
  have : k = 4 ∨ k = 5 := by simp [exView, View.tip] at h2; omega
  rcases this with rfl | rfl <;> exact ⟨by decide, by intro x hx; simp [exView] at hx; subst hx; decide⟩
/-- nothing processed, start height 3 < tip 6 (headers below height 2 pruned): plan from the start height. -/
example : plan exView (fun _ => false) 3 = some [(13, 3), (14, 4), (15, 5), (16, 6)] := by decide

def exS : S := { start := 1, view := exView, processed := [11, 13] }

/-- a round in which block 14 completes, then a reorg replaces heights 5.. while block 15 is
    outstanding, the poll aborts it and the manager answers. -/
example : (run (startRound exS)
    [.complete, .setView { chain := [10, 11, 12, 13, 14, 25, 26, 27] }, .poll, .aborted]).rs = .ended .aborted ∧
    (run (startRound exS)
    [.complete, .setView { chain := [10, 11, 12, 13, 14, 25, 26, 27] }, .poll, .aborted]).reqs = [(14, 4), (15, 5)] := by
  decide
/-- the next round continues on the new best chain. -/
example : plan { chain := [10, 11, 12, 13, 14, 25, 26, 27] } (fun x => x == 11 || x == 13 || x == 14) 1
    = some [(25, 5), (26, 6), (27, 7)] := by decide
/-- hypotheses of `C05_orphan_abandoned` / `C05_second_poll_harmless` hold in a concrete state: two
    polls on the orphaned block 15 leave the round waiting with the abort closed once. -/
example : (run (step (step (startRound exS) .complete) (.setView { chain := [10, 11, 12, 13, 14, 25, 26, 27] }))
    [.poll, .poll]).rs = .waiting { hash := 15, height := 5, rest := [16], abortClosed := true } := by decide
/-- a stopped block manager: the round returns. -/
example : (startRound { exS with mgrClosed := true }).rs = .ended .mgrStopped := by decide
example : (trun { delayDone := true, thread := .running, rounds := 1 } [.trigger, .trigger, .roundEnd .ok]).rounds = 2 := by
  decide

end BRV.Sync
