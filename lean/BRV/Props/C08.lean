/-
C08 — Each header submission gets the reference verdict and a refusal changes nothing.

Theorems about `BRV.Repo.processHeader` (Model/RepoOps.lean), for EVERY repository state `r`
(reachable or not), every header and every hash-vs-target outcome. The model is tied to
/repo/headers/headers.go by the `hdr` correspondence harness; the order of the checks is tied to the
source by the extracted `Facts.processHeaderCheckOrder`.
-/
import BRV.Proofs.RepoBasics
import BRV.Proofs.RepoExample
import BRV.Proofs.LinearWorld

namespace BRV.Repo

/-- **C08 (a refusal changes nothing).** Whatever verdict the checks of `ProcessHeader` produce
    (unknown parent, wrong chain, bad work, bad bits, marked invalid, too deep, already known, …),
    the repository — every field: branches, maps, tip, invalid list, storage — is left exactly as
    it was and nothing is announced to subscribers. -/
theorem C08_refusal_pure (r : Repo) (h : Hdr) (ok : Bool) (v : Verdict)
    (hp : precheck r h ok = .inl v) :
    (processHeader r h ok).1 = r ∧ (processHeader r h ok).2.events = [] ∧ (processHeader r h ok).2.verdict = v := by
  rw [processHeader_of_inl r h ok v hp]; exact ⟨rfl, rfl, rfl⟩

/-- the refusing verdicts are exactly the reference answers: never "accepted". -/
theorem C08_refusal_is_not_accept (r : Repo) (h : Hdr) (ok : Bool) (v : Verdict)
    (hp : precheck r h ok = .inl v) : v ≠ .ok := precheck_inl_ne_ok r h ok v hp

/-- **C08 (reference verdict, accepting side).** A header passes the checks only if: its bits are
    well formed, its hash meets its target (unless difficulty checks are disabled), its parent is
    held, it is not already held, it is not a foreign split header at its height and is the
    required header at the required height (unless split protection is disabled), its bits are the
    difficulty algorithm's from the activation height on, it is not marked invalid, and — when a
    new branch must be started — the parent is at most `MaxBranchDepth` below the best height. -/
theorem C08_accept_implies_rules (r : Repo) (h : Hdr) (ok : Bool) (pb : Nat) (ph : Int) (lst : HData)
    (hp : precheck r h ok = .inr (pb, ph, lst)) : Passed r h ok pb ph lst :=
  precheck_inr r h ok pb ph lst hp

/-- **C08 (already known).** A header that is held (and whose parent is held, with acceptable bits
    and work) is answered "already known": success, no change, no announcement — any number of times. -/
theorem C08_known_idempotent (r : Repo) (h : Hdr) (ok : Bool) (pb : Nat) (ph : Int)
    (hb : Work.malformedBits h.bits = false) (hw : r.disableDifficulty = true ∨ ok = true)
    (hparent : r.branchesFind h.prev = some (pb, ph)) (hknown : (r.branchesFind h.id).isSome = true) :
    processHeader r h ok = (r, { verdict := .known, events := [] }) := by
  apply processHeader_of_inl
  unfold precheck
  have hw' : (!r.disableDifficulty && !ok) = false := by
    rcases hw with hw | hw <;> simp [hw]
  simp only [hb, Bool.false_eq_true, ↓reduceIte, hw', hparent, hknown]

theorem C08_known_n_times (r : Repo) (h : Hdr) (ok : Bool) (pb : Nat) (ph : Int) (n : Nat)
    (hb : Work.malformedBits h.bits = false) (hw : r.disableDifficulty = true ∨ ok = true)
    (hparent : r.branchesFind h.prev = some (pb, ph)) (hknown : (r.branchesFind h.id).isSome = true) :
    (List.replicate n h).foldl (fun s x => (processHeader s x ok).1) r = r := by
  induction n with
  | zero => rfl
  | succ n ih =>
    simp only [List.replicate_succ, List.foldl_cons]
    rw [C08_known_idempotent r h ok pb ph hb hw hparent hknown]
    exact ih

/-- **C08 (reference verdict, converse: what passes the rules IS accepted).** In every state reached
    by submissions from genesis, a header that passes every check is added and answered `ok`: no
    internal error (parent lookup, work conversion, `Longest()`, branch update) can intervene. -/
theorem C08_passed_is_accepted (r : Repo) (h : Hdr) (ok : Bool) (hs : StreamWF r) (hlv : r.longest < r.arena.length)
    (hnc : ∀ pb ph lst, precheck r h ok = .inr (pb, ph, lst) →
      Int.tmod ((r.br pb).height + 1) (Facts.autoCleanModulus : Int) ≠ 0)
    (pb : Nat) (ph : Int) (lst : HData) (hpc : precheck r h ok = .inr (pb, ph, lst)) :
    (processHeader r h ok).2.verdict = .ok :=
  passed_verdict_ok r h ok hs hlv hnc pb ph lst hpc

/-- **C08 (re-submitting an accepted header succeeds and changes nothing).** After a header was
    accepted, submitting it again — any number of times — is answered "already known" and leaves
    every field of the repository as it is, with nothing announced. -/
theorem C08_accepted_then_known (r : Repo) (h : Hdr) (ok : Bool) (hs : StreamWF r) (hlv : r.longest < r.arena.length)
    (hnc : ∀ pb ph lst, precheck r h ok = .inr (pb, ph, lst) →
      Int.tmod ((r.br pb).height + 1) (Facts.autoCleanModulus : Int) ≠ 0)
    (pb : Nat) (ph : Int) (lst : HData) (hpc : precheck r h ok = .inr (pb, ph, lst)) (n : Nat) :
    processHeader (processHeader r h ok).1 h ok = ((processHeader r h ok).1, { verdict := .known, events := [] }) ∧
    (List.replicate n h).foldl (fun s x => (processHeader s x ok).1) (processHeader r h ok).1 = (processHeader r h ok).1 := by
  have hF := streamWF_processHeader r h ok hs hnc
  have hpass := precheck_inr r h ok pb ph lst hpc
  obtain ⟨⟨b1, hheld⟩, ⟨b2, hheldp⟩⟩ := passed_then_held r h ok hs hlv hnc pb ph lst hpc
  obtain ⟨_, _, _, _, _, hdd⟩ := passed_state r h ok hs hlv hnc pb ph lst hpc
  have hknown := branchesFind_of_held _ hF.chain.wf.ids b1 h.id _ hheld
  have hparent := branchesFind_of_held _ hF.chain.wf.ids b2 h.prev _ hheldp
  obtain ⟨x, hx⟩ := Option.isSome_iff_exists.mp hparent
  obtain ⟨pb', ph'⟩ := x
  have hwork : (processHeader r h ok).1.disableDifficulty = true ∨ ok = true := by rw [hdd]; exact hpass.workOk
  exact ⟨C08_known_idempotent _ h ok pb' ph' hpass.bitsOk hwork hx hknown,
    C08_known_n_times _ h ok pb' ph' n hpass.bitsOk hwork hx hknown⟩

/-- **C08 (too deep).** A header whose parent is held but already has a successor in its branch,
    `depth = best height − parent height > MaxBranchDepth`, is refused as beyond the maximum branch
    depth when no earlier rule refuses it; the comparison is the source's (`>`, extracted). -/
theorem C08_too_deep (r : Repo) (h : Hdr) (ok : Bool) (pb : Nat) (ph : Int) (lst : HData)
    (hb : Work.malformedBits h.bits = false) (hw : r.disableDifficulty = true ∨ ok = true)
    (hparent : r.branchesFind h.prev = some (pb, ph)) (hfresh : r.branchesFind h.id = none)
    (hs1 : r.disableSplit = true ∨ r.cfg.splits.any (fun s => s.height == ph + 1 && s.after == h.id) = false)
    (hs2 : r.disableSplit = true ∨ requiredViolated r (ph + 1) h.id = false)
    (hdaa : daaVerdict r pb (ph + 1) h.bits = none) (hinv : r.invalid.contains h.id = false)
    (hlast : r.lastOf pb = some lst) (hfork : lst.hdr.id ≠ h.prev)
    (hdeep : (r.br r.longest).height - ph > r.cfg.maxBranchDepth) :
    processHeader r h ok = (r, { verdict := .tooDeep, events := [] }) := by
  apply processHeader_of_inl
  unfold precheck
  have hw' : (!r.disableDifficulty && !ok) = false := by
    rcases hw with hw | hw <;> simp [hw]
  have h1 : (!r.disableSplit && r.cfg.splits.any (fun s => s.height == ph + 1 && s.after == h.id)) = false := by
    rcases hs1 with hs | hs <;> simp [hs]
  have h2 : (!r.disableSplit && requiredViolated r (ph + 1) h.id) = false := by
    rcases hs2 with hs | hs <;> simp [hs]
  simp only [hb, Bool.false_eq_true, ↓reduceIte, hw', hparent, hfresh, Option.isSome_none, h1, h2, hdaa, hinv, hlast,
    ne_eq, hfork, not_false_eq_true, hdeep, and_self]

/-- the order of the checks in the source is the order the model makes them in
    (bits, work, parent lookup incl. the two wrong-chain cases, duplicate, foreign split, required
    split, difficulty bits, invalid list, depth): a reordering in the source changes the extracted
    list and breaks this obligation. -/
theorem C08_check_order :
    Facts.processHeaderCheckOrder =
      ["ErrInvalidTarget", "ErrNotEnoughWork", "ErrWrongChain", "ErrWrongChain", "ErrUnknownHeader",
       "ErrWrongChain", "ErrWrongChain", "ErrInvalidTarget", "ErrHeaderMarkedInvalid", "ErrBeyondMaxBranchDepth"] := by
  decide

/-- the depth test in the source is `depth > repo.config.MaxBranchDepth` as modelled. -/
theorem C08_depth_test_shape : Facts.depthOp = ">" ∧ Facts.depthRhs = "repo.config.MaxBranchDepth" := by decide

/-! ### non-vacuity -/

def exRepo : Repo :=
  { arena := [{ parent := none, parentHeight := -1, first := { id := 0, prev := 99, bits := 0x1d00ffff, time := 1 },
                offset := 1, headers := [{ hdr := { id := 0, prev := 99, bits := 0x1d00ffff, time := 1 }, work := 4295032833 }],
                hmap := [(0, 0)] }],
    branches := [0], longest := 0, heights := [(0, 0)], disableDifficulty := true }

example : (precheck exRepo { id := 7, prev := 5, bits := 0x1d00ffff, time := 2 } true) = .inl .unknown := by decide
example : precheck exRepo { id := 1, prev := 0, bits := 0x1d00ffff, time := 2 } true
    = .inr (0, 0, { hdr := { id := 0, prev := 99, bits := 0x1d00ffff, time := 1 }, work := 4295032833 }) := by decide
example : (processHeader exRepo { id := 1, prev := 0, bits := 0x1d00ffff, time := 2 } true).2.verdict = .ok := by decide
example : (processHeader exRepo { id := 0, prev := 99, bits := 0x1d00ffff, time := 1 } true).2.verdict = .unknown := by decide

/-- the hypotheses of the two theorems above are met by the genesis-only repository and a first header. -/
example : StreamWF genesisRepo ∧ genesisRepo.longest < genesisRepo.arena.length ∧
    precheck genesisRepo { id := 1, prev := 0, bits := 0x1d00ffff, time := 2 } true
      = .inr (0, 0, { hdr := { id := 0, prev := 99, bits := 0x1d00ffff, time := 1 }, work := 4295032833 }) :=
  ⟨genesisRepo_streamWF, by decide, by decide⟩


/-- **C08 in the linear world** (also with most of the chain pruned from memory, at any generation): a
    submission either leaves the chain unchanged, announces nothing and is answered with a refusing verdict,
    or is accepted (`ok`), announced exactly once and appended as the new tip. -/
theorem C08_linear_step (r : Repo) (c : List HData) (k m : Nat) (hp : PLin r c k m) (h : Hdr) (ok : Bool)
    (hlin : LinStep r h ok) :
    ∃ c' : List HData, ObsChain (processHeader r h ok).1 c' ∧
      ((c' = c ∧ (processHeader r h ok).2.events = [] ∧ (processHeader r h ok).2.verdict ≠ .ok) ∨
       (∃ d : HData, d.hdr = h ∧ c' = c ++ [d] ∧ (processHeader r h ok).2.events = [h] ∧
          (processHeader r h ok).2.verdict = .ok)) := by
  obtain ⟨c', k', m', hp', hcase, _, _⟩ := step_lin hp h ok hlin
  exact ⟨c', hp'.obsChain, hcase⟩

end BRV.Repo
