/-
C13 — A peer can do nothing before it is verified.

Theorems about the executable connection model (Model/Node.lean, Model/Wire.lean), which the `node`
correspondence harness ties to bitcoin_node.go / handlers.go / messages.go on every run. The
handler tables are NOT part of the model: they are `Facts.preAcceptHandlers` /
`Facts.acceptHandlers`, extracted from `NewBitcoinNode` and `accept` by go/cmd/extract on every
check, so an edit of those tables re-states (and possibly breaks) the theorems below.

Quantifiers: every byte stream a peer can send (`inp : Bytes`, any length, any content; hence
every sequence of messages of every command, classic or extended, well-formed or not, repeated or
out-of-order version/verack), every environment (`Env`: any hash function, any VerifyHeader /
ProcessHeader answers, any memory limit), every node configuration (verify-only, tx manager,
alternate header handler), every reachable state.
-/
import BRV.Proofs.NodeStep

namespace BRV.Wire
open BRV BRV.Node

/-! ## the extracted tables -/

/-- every entry of the two extracted tables is understood by the model: known `wire.Cmd*`
    constant, known handler function, known guarding condition. A new handler or condition in
    `NewBitcoinNode` / `accept` breaks this until the model is extended. -/
theorem C13_tables_interpreted :
    interpreted Facts.preAcceptHandlers = true ∧ interpreted Facts.acceptHandlers = true := by decide

/-- **C13, table clause.** No command in the table built by `NewBitcoinNode` maps to a handler that
    touches the header repository, the tx manager or the peer address book (handleHeadersTrack,
    handleAddress, handleGetAddresses, handleInventory, handleTx, handleBlock). Stated on the raw
    extracted facts: installing e.g. `handleAddress` in `NewBitcoinNode` makes this false. -/
theorem C13_pretable_harmless :
    (Facts.preAcceptHandlers.all fun en =>
      match Handler.ofName en.2.1 with
      | some h => !h.touchesRepos
      | none => false) = true := by decide

/-- the same for the table the model runs with, and nothing was lost building it. -/
theorem C13_pretable_model :
    preTable.all (fun en => !en.2.touchesRepos) = true ∧ preTable.length = Facts.preAcceptHandlers.length := by
  decide

/-- the repository-touching handlers are installed by `accept` only (the second table), and the
    tx handlers only under their extracted condition. -/
theorem C13_accept_table :
    ((install Facts.acceptHandlers true preTable).get "addr" = some .address) ∧
    ((install Facts.acceptHandlers true preTable).get "headers" = some .headersTrack) ∧
    ((install Facts.acceptHandlers true preTable).get "inv" = some .inventory) ∧
    ((install Facts.acceptHandlers false preTable).get "inv" = none) ∧
    ((install Facts.acceptHandlers false preTable).get "tx" = none) := by decide

/-! ## reachable states -/

/-- a fresh node: configuration is arbitrary, everything else as `NewBitcoinNode` leaves it. -/
def initState (verifyOnly hasTx hasHH : Bool) (pingNonce : Nat) : State :=
  { verifyOnly := verifyOnly, hasTx := hasTx, hasHH := hasHH, pingNonce := pingNonce }

theorem ping_preTable : lookupCmd preTable (ascii "ping") = some .ping := by decide

theorem inv_init (vo tx hh : Bool) (pn : Nat) : Inv (initState vo tx hh pn) :=
  ⟨fun _ => ⟨rfl, rfl, rfl⟩, fun h => (by cases h), fun h => (by cases h), fun _ h => (by cases h), ping_preTable⟩

/-- states of a connection: initial, after any handled message (whatever the bytes), as seen while
    a message is incomplete, after the connection closed, after `RequestBlock` on a ready node
    (the only outside call that changes the table; `nextNode` only hands out ready nodes) and after
    `CancelBlockRequest`. -/
inductive Reach (e : Env) : State → Prop
  | init (vo tx hh : Bool) (pn : Nat) : Reach e (initState vo tx hh pn)
  | step {s s' : State} (inp : Bytes) : Reach e s → (handleMessage e s inp).state = some s' → Reach e s'
  | reqBlock {s : State} (h : Bytes) : Reach e s → s.ready = true → Reach e (requestBlock s h).1
  | cancel {s : State} (h : Bytes) : Reach e s → Reach e (cancelBlock s h).1

theorem requestBlock_frame (s : State) (h : Bytes) (hr : s.verified = true) : Frame s (requestBlock s h).1 := by
  unfold requestBlock
  exact ⟨fun hv => (by rw [hr] at hv; cases hv), rfl, rfl, rfl, rfl, rfl, id, id,
    fun c hc => lookupCmd_set_ne _ _ _ _ (fun hh => hc hh.symm),
    fun _ => ⟨fun _ => ⟨rfl, rfl⟩, fun h => (by cases h), fun _ => rfl, fun h => (by cases h)⟩⟩

theorem runEnd_inv (s : State) (hI : Inv s) : Inv (runEnd s).1 := by
  unfold runEnd
  split
  · exact ⟨fun hv => ⟨(hI.pre hv).1, rfl, (hI.pre hv).2.2⟩, fun h => (by cases h), hI.hs, hI.vo, hI.ping⟩
  · exact ⟨fun hv => ⟨(hI.pre hv).1, rfl, (hI.pre hv).2.2⟩, fun h => (by cases h), hI.hs, hI.vo, hI.ping⟩

theorem runEnd_blk (s : State) (hB : BlkInv s) : BlkInv (runEnd s).1 := by
  unfold runEnd
  split
  · exact ⟨fun h => (by cases h), hB.reader, hB.handler, hB.started⟩
  · exact ⟨hB.armed, hB.reader, hB.handler, hB.started⟩

theorem connectionEnd_eq (s : State) : connectionEnd s = runEnd (streamFailed s) := rfl

theorem streamFailed_inv (s : State) (hI : Inv s) : Inv (streamFailed s) := by
  unfold streamFailed
  by_cases hr : (s.blockReader && s.blockStarted) = true
  · simp only [hr, ↓reduceIte]
    cases hq : s.blockReq with
    | none => simp only []; exact ⟨fun hv => ⟨(hI.pre hv).1, (hI.pre hv).2.1, rfl⟩, hI.rdy, hI.hs, hI.vo, hI.ping⟩
    | some h =>
      simp only []
      have := hI.frame (completeBlock_frame s h (fun hv => (hI.pre hv).2.2))
      exact ⟨this.pre, this.rdy, this.hs, this.vo, this.ping⟩
  · simp only [hr, Bool.false_eq_true, ↓reduceIte]; exact hI

theorem streamFailed_blk (s : State) (hB : BlkInv s) : BlkInv (streamFailed s) := by
  unfold streamFailed
  by_cases hr : (s.blockReader && s.blockStarted) = true
  · simp only [hr, ↓reduceIte]
    have hr' : s.blockReader = true := by
      simp only [Bool.and_eq_true] at hr; exact hr.1
    cases hq : s.blockReq with
    | none =>
      have := hB.reader hr'
      rw [hq] at this; cases this
    | some h =>
      simp only [completeBlock, hq, ↓reduceIte]
      exact ⟨fun h => (by cases h), fun h => (by cases h), fun h => (by cases h), fun h => (by cases h)⟩
  · simp only [hr, Bool.false_eq_true, ↓reduceIte]; exact hB

theorem connectionEnd_inv (s : State) (hI : Inv s) : Inv (connectionEnd s).1 := by
  rw [connectionEnd_eq]; exact runEnd_inv _ (streamFailed_inv s hI)

theorem connectionEnd_blk (s : State) (hB : BlkInv s) : BlkInv (connectionEnd s).1 := by
  rw [connectionEnd_eq]; exact runEnd_blk _ (streamFailed_blk s hB)

theorem cancel_flags_frame (s : State) (st : Bool) (hs : s.stopped = true → st = true) :
    Frame s { s with onStopArmed := false, blockHandler := false, stopped := st } :=
  ⟨fun _ => ⟨rfl, rfl⟩, rfl, rfl, rfl, rfl, rfl, id, hs, fun _ _ => rfl,
   fun hb => ⟨fun h => (by cases h), hb.reader, fun h => (by cases h), hb.started⟩⟩

theorem cancel_unstarted_frame (s : State) (hst : ¬ s.blockStarted = true) :
    Frame s { s with onStopArmed := false, blockHandler := false, blockReader := false, stopped := true } :=
  ⟨fun _ => ⟨rfl, rfl⟩, rfl, rfl, rfl, rfl, rfl, id, fun _ => rfl, fun _ _ => rfl,
   fun _ => ⟨fun h => (by cases h), fun h => (by cases h), fun h => (by cases h), fun h => absurd h hst⟩⟩

theorem cancelBlock_inv (s : State) (h : Bytes) (hI : Inv s) : Inv (cancelBlock s h).1 := by
  unfold cancelBlock
  split
  · exact hI
  · split
    · exact hI
    · split
      · split
        · exact connectionEnd_inv _ (hI.frame (cancel_flags_frame s true (fun _ => rfl)))
        · rename_i hst; exact runEnd_inv _ (hI.frame (cancel_unstarted_frame s hst))
      · exact hI.frame ⟨fun _ => ⟨rfl, rfl⟩, rfl, rfl, rfl, rfl, rfl, id, id, fun _ _ => rfl,
          fun hb => ⟨fun h => (by cases h), hb.reader, fun h => (by cases h), hb.started⟩⟩

theorem cancelBlock_blk (s : State) (h : Bytes) (hB : BlkInv s) : BlkInv (cancelBlock s h).1 := by
  unfold cancelBlock
  split
  · exact hB
  · split
    · exact hB
    · split
      · split
        · exact connectionEnd_blk _ ((cancel_flags_frame s true (fun _ => rfl)).blk hB)
        · rename_i hst
          refine runEnd_blk _ ⟨fun h => (by cases h), fun h => (by cases h), fun h => (by cases h), fun h' => ?_⟩
          exact absurd h' hst
      · exact ⟨fun h => (by cases h), hB.reader, fun h => (by cases h), hB.started⟩

theorem reach_inv (e : Env) (s : State) (h : Reach e s) : Inv s := by
  induction h with
  | init vo tx hh pn => exact inv_init vo tx hh pn
  | step inp _ hs ih => exact handleMessage_inv e _ inp ih _ hs
  | reqBlock h _ hr ih => exact ih.frame (requestBlock_frame _ h (ih.rdy hr))
  | cancel h _ ih => exact cancelBlock_inv _ h ih

/-- **C13 (ready ⇒ verified).** In every reachable state a node that is ready — the only nodes
    `nextNode` hands out for header, transaction and block requests — has completed the handshake
    and has been verified. -/
theorem C13_ready_implies_verified (e : Env) (s : State) (h : Reach e s) :
    s.ready = true → s.verified = true ∧ s.hsComplete = true := by
  intro hr
  have hI := reach_inv e s h
  exact ⟨hI.rdy hr, hI.hs (hI.rdy hr)⟩

/-- until verification the handler table is exactly the extracted pre-accept table. -/
theorem C13_table_until_verified (e : Env) (s : State) (h : Reach e s) :
    s.verified = false → s.table = preTable := fun hv => ((reach_inv e s h).pre hv).1

/-! ## nothing reaches a repository before verification -/

/-- one `handleMessage` on an unverified connection, any input bytes: the effects touch nothing
    before the `accepted` mark, and if the connection is verified afterwards the mark is there. -/
theorem unverified_step (e : Env) (s : State) (inp : Bytes) (hI : Inv s) (hv : s.verified = false) :
    okBefore (handleMessage e s inp).effects = true ∧
    (∀ s', (handleMessage e s inp).state = some s' → s'.verified = true → Effect.accepted ∈ (handleMessage e s inp).effects) := by
  unfold handleMessage
  split
  · exact ⟨rfl, fun s' h hv' => by simp only [Outcome.state, Option.some.injEq] at h; rw [← h, hv] at hv'; cases hv'⟩
  · split
    · exact ⟨rfl, fun s' h hv' => by simp only [Outcome.state, Option.some.injEq] at h; rw [← h] at hv'; simp only [hv] at hv'; cases hv'⟩
    · split
      · exact ⟨rfl, fun s' h hv' => by simp only [Outcome.state, Option.some.injEq] at h; rw [← h, hv] at hv'; cases hv'⟩
      · simp only []
        split
        · split
          · exact ⟨rfl, fun s' h hv' => by simp only [Outcome.state, Option.some.injEq] at h; rw [← h, hv] at hv'; cases hv'⟩
          · exact ⟨rfl, fun s' h hv' => by simp only [Outcome.state, Option.some.injEq] at h; rw [← h] at hv'; simp only [hv] at hv'; cases hv'⟩
        · split
          · split
            · exact ⟨rfl, fun s' h hv' => by simp only [Outcome.state, Option.some.injEq] at h; rw [← h, hv] at hv'; cases hv'⟩
            · exact ⟨rfl, fun s' h hv' => by simp only [Outcome.state, Option.some.injEq] at h; rw [← h, hv] at hv'; cases hv'⟩
          · rename_i hd hl
            rw [(hI.pre hv).1] at hl
            have ht := lookup_pre_harmless _ _ hl
            rw [toOutcome_effects]
            rcases dispatch_unverified e s hd _ _ _ hI hv ht with ⟨hf, hq⟩ | ⟨_, ⟨n, r, hfx, _⟩, _⟩
            · refine ⟨(okBefore_quiet hq).1, fun s' h hv' => ?_⟩
              exfalso
              rcases toOutcome_state _ _ _ h with rfl | rfl
              · rw [hf.verified, hv] at hv'; cases hv'
              · have : s.verified = true := by rw [← hf.verified]; exact hv'
                rw [hv] at this; cases this
            · rw [hfx]
              exact ⟨rfl, fun _ _ _ => by simp⟩

/-- the run loop: while no `accepted` mark has been emitted the connection is unverified. -/
theorem run_okBefore (e : Env) (fuel : Nat) (s : State) (inp : Bytes) (acc : List Effect)
    (hacc : okBefore acc = true)
    (hs : Effect.accepted ∈ acc ∨ (Inv s ∧ s.verified = false)) :
    okBefore (run e fuel s inp acc).1 = true := by
  induction fuel generalizing s inp acc with
  | zero => exact hacc
  | succ fuel ih =>
    unfold run
    rcases hs with hm | ⟨hI, hv⟩
    · -- already accepted: anything may follow
      split
      · exact ih _ _ _ (okBefore_append hacc (Or.inl hm)) (Or.inl (List.mem_append_left _ hm))
      all_goals exact okBefore_append hacc (Or.inl hm)
    · have hstep := unverified_step e s inp hI hv
      split
      · rename_i s' rest fx' heq
        rw [heq] at hstep
        simp only [Outcome.effects, Outcome.state] at hstep
        refine ih _ _ _ (okBefore_append hacc (Or.inr hstep.1)) ?_
        by_cases hv' : s'.verified = true
        · exact Or.inl (List.mem_append_right _ (hstep.2 s' rfl hv'))
        · refine Or.inr ⟨?_, by simpa using hv'⟩
          exact handleMessage_inv e s inp hI s' (by rw [heq]; rfl)
      all_goals
        rename_i heq
        rw [heq] at hstep
        simp only [Outcome.effects] at hstep
        exact okBefore_append hacc (Or.inr hstep.1)

/-- **C13 (nothing before verification).** For every byte stream sent to a fresh node of any
    configuration: in the trace of effects no `ProcessHeader`, no non-empty feed of the alternate
    header handler, no `AddTxID`, no `AddTx`, no `Peers.Add`, no `Peers.Get` (address-book answer)
    and no `UpdateScore` occurs before the `accepted` mark, i.e. before `accept` stored
    `verified`. (`okBefore` scans the whole trace; `VerifyHeader`, which is read-only, sends and
    `Stop` are the only effects allowed before the mark.) -/
theorem C13_no_effect_before_verified (e : Env) (vo tx hh : Bool) (pn : Nat) (inp : Bytes) :
    okBefore (runAll e (initState vo tx hh pn) inp).1 = true :=
  run_okBefore e _ _ _ [] rfl (Or.inr ⟨inv_init vo tx hh pn, rfl⟩)

/-- the same from any reachable unverified state (e.g. mid-handshake), for any further input. -/
theorem C13_no_effect_before_verified_from (e : Env) (s : State) (h : Reach e s) (hv : s.verified = false)
    (inp : Bytes) : okBefore (runAll e s inp).1 = true :=
  run_okBefore e _ _ _ [] rfl (Or.inr ⟨reach_inv e s h, hv⟩)

/-- `okBefore` means what it should: an effect at position `i` that touches a repository has an
    `accepted` mark strictly before it. -/
theorem okBefore_spec (fx : List Effect) (h : okBefore fx = true) (i : Nat) (x : Effect)
    (hx : fx[i]? = some x) (ht : x.touches = true) : ∃ j, j < i ∧ fx[j]? = some Effect.accepted := by
  induction fx generalizing i with
  | nil => simp at hx
  | cons y r ih =>
    by_cases hy : y = .accepted
    · subst hy
      cases i with
      | zero => simp only [List.getElem?_cons_zero, Option.some.injEq] at hx; subst hx; simp [Effect.touches] at ht
      | succ i => exact ⟨0, by omega, rfl⟩
    · have h' : (!y.touches && okBefore r) = true := by
        cases y <;> first | exact absurd rfl hy | exact h
      simp only [Bool.and_eq_true, Bool.not_eq_true'] at h'
      cases i with
      | zero =>
        simp only [List.getElem?_cons_zero, Option.some.injEq] at hx
        subst hx; rw [h'.1] at ht; cases ht
      | succ i =>
        simp only [List.getElem?_cons_succ] at hx
        obtain ⟨j, hj, hjx⟩ := ih h'.2 i hx
        exact ⟨j + 1, by omega, by simpa using hjx⟩

/-! ## verify-only -/

/-- **C13 (verify-only disconnects).** On a verify-only node the step in which verification
    succeeds is the step in which the connection is closed: the outcome is `closed`, `Stop` is among
    the effects and the state is stopped; it is never `ok` or still waiting. -/
theorem C13_verify_only_disconnects (e : Env) (s : State) (inp : Bytes) (hI : Inv s)
    (hv : s.verified = false) (hvo : s.verifyOnly = true) (s' : State)
    (hs : (handleMessage e s inp).state = some s') (hv' : s'.verified = true) :
    (∃ fx, handleMessage e s inp = .closed s' fx ∧ Effect.stop ∈ fx) ∧ s'.stopped = true := by
  unfold handleMessage at hs ⊢
  split at hs
  · simp only [Outcome.state, Option.some.injEq] at hs; rw [← hs, hv] at hv'; cases hv'
  · split at hs
    · simp only [Outcome.state, Option.some.injEq] at hs; rw [← hs] at hv'; simp only [hv] at hv'; cases hv'
    · split at hs
      · simp only [Outcome.state, Option.some.injEq] at hs; rw [← hs, hv] at hv'; cases hv'
      · simp only [] at hs
        split at hs
        · split at hs <;> simp only [Outcome.state, Option.some.injEq] at hs
          · rw [← hs, hv] at hv'; cases hv'
          · rw [← hs] at hv'; simp only [hv] at hv'; cases hv'
        · split at hs
          · split at hs <;> (simp only [Outcome.state, Option.some.injEq] at hs; rw [← hs, hv] at hv'; cases hv')
          · rename_i h1 h2 h3 h4 _ hd hl
            simp only [h1, h2, h3, h4, ↓reduceIte, hl]
            have hl' := hl
            rw [(hI.pre hv).1] at hl'
            have ht := lookup_pre_harmless _ _ hl'
            rcases dispatch_unverified e s hd (leVal ((inp.drop 16).take 4)) ((inp.drop 20).take 4) (inp.drop 24) hI hv ht
              with ⟨hf, _⟩ | ⟨_, ⟨n, r, hfx, hstop⟩, hres⟩
            · exfalso
              rcases toOutcome_state _ _ _ hs with rfl | rfl
              · rw [hf.verified, hv] at hv'; cases hv'
              · have : s.verified = true := by rw [← hf.verified]; exact hv'
                rw [hv] at this; cases this
            · have hr := hres hvo
              unfold toOutcome at hs ⊢
              rw [hr.1] at hs ⊢
              simp only [Outcome.state, Option.some.injEq] at hs
              subst hs
              refine ⟨⟨_, rfl, ?_⟩, hr.2⟩
              rw [hfx]
              simp only [List.mem_cons]
              exact Or.inr (Or.inr (hstop hvo))

/-! ## NodeManager.nextNode -/

theorem nextNodeLoop_ready (fuel : Nat) (nodes : List NodeView) (off : Nat) (looped : Bool) (nd : NodeView)
    (h : (nextNodeLoop fuel nodes off looped).2.2 = some nd) :
    nd.ready = true ∧ nd.stopped = false ∧ nd.busy = false ∧ nd.hasData = true := by
  induction fuel generalizing nodes off looped with
  | zero => simp [nextNodeLoop] at h
  | succ fuel ih =>
    unfold nextNodeLoop at h
    split at h
    · split at h
      · simp at h
      · exact ih _ _ _ h
    · split at h
      · simp at h
      · rename_i nd' _
        split at h
        · exact ih _ _ _ h
        · split at h
          · exact ih _ _ _ h
          · split at h
            · exact ih _ _ _ h
            · split at h
              · exact ih _ _ _ h
              · simp only [Option.some.injEq] at h
                subst h
                rename_i h1 h2 h3 h4
                refine ⟨by simpa using h2, by simpa using h1, by simpa using h3, by simpa using h4⟩

/-- **C13 (selection).** Whatever the list of managed nodes and the scan offset, `nextNode` only
    returns a node that is ready (and not stopped, not busy, has the data). With
    `C13_ready_implies_verified`: it only returns verified nodes. -/
theorem C13_selected_implies_ready (nodes : List NodeView) (off : Nat) (nd : NodeView)
    (h : (nextNode nodes off).2.2 = some nd) : nd.ready = true ∧ nd.stopped = false := by
  unfold nextNode at h
  split at h
  · simp at h
  · have := nextNodeLoop_ready _ _ _ _ _ h
    exact ⟨this.1, this.2.1⟩

/-! ## non-vacuity: concrete runs of the model -/

namespace Example

def env0 : Env :=
  { net := [0xe3, 0xe1, 0xf3, 0xe8], mem := 2 ^ 31, hash := fun b => b.take 4 ++ List.replicate 28 0,
    verifyOk := fun h => hdrNonce h == 7, processOk := fun _ => true }

def frame (cmd : String) (p : Bytes) : Bytes :=
  env0.net ++ (ascii cmd ++ List.replicate (12 - cmd.length) 0) ++ leN 4 p.length ++ (env0.hash p).take 4 ++ p

def versionP : Bytes := List.replicate 46 1
def hdr (nonce : Nat) : Bytes := List.replicate 76 2 ++ leN 4 nonce
def headersP (nonce : Nat) : Bytes := [1] ++ hdr nonce ++ [0]
def addrP : Bytes := [1] ++ List.replicate 28 3 ++ [0x1f, 0x90]

set_option maxRecDepth 100000 in
/-- an `addr` before verification reaches nothing; after version, verack and a verified header the
    same `addr` does reach `Peers.Add` — after the `accepted` mark. -/
example :
    (runAll env0 (initState false true true 0)
      (frame "addr" addrP ++ frame "version" versionP ++ frame "verack" [] ++ frame "addr" addrP ++
       frame "headers" (headersP 7) ++ frame "addr" addrP)).1
    = [.send "verack" 0, .send "protoconf" 0, .send "getheaders" 0, .verifyHeader 7, .accepted,
       .send "sendheaders" 0, .send "getaddr" 0, .send "getheaders" 0, .peersGet, .send "addr" 0,
       .peersAdd 8080] := by decide +kernel

set_option maxRecDepth 100000 in
/-- a verify-only node stops in the verification step. -/
example :
    (runAll env0 (initState true false false 0)
      (frame "version" versionP ++ frame "verack" [] ++ frame "headers" (headersP 7) ++ frame "addr" addrP)).1
    = [.send "verack" 0, .send "protoconf" 0, .send "getheaders" 0, .verifyHeader 7, .accepted, .stop] := by decide +kernel

set_option maxRecDepth 100000 in
/-- a wrong-chain header: `VerifyHeader`, then `Stop`; nothing else, also with an alternate header
    handler installed. -/
example :
    (runAll env0 (initState false true true 0)
      (frame "version" versionP ++ frame "verack" [] ++ frame "headers" (headersP 8))).1
    = [.send "verack" 0, .send "protoconf" 0, .send "getheaders" 0, .verifyHeader 8, .stop] := by decide +kernel

example : (nextNode [⟨false, false, false, true⟩, ⟨true, true, false, true⟩, ⟨false, true, false, true⟩] 0).2.2
    = some ⟨false, true, false, true⟩ := by decide

end Example

end BRV.Wire
