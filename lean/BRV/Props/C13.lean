/-
C13 — A peer can do nothing before it is verified.

Theorems about the executable connection model (Model/Node.lean, Model/Wire.lean), which the `node`
correspondence harness ties to bitcoin_node.go / handlers.go / messages.go on every run. The
handler tables are NOT part of the model: they are `Facts.preAcceptHandlers` /
`Facts.acceptHandlers`, extracted from `NewBitcoinNode` and `accept` by go/cmd/extract on every
check, so an edit of those tables re-states (and possibly breaks) the theorems below.

Quantifiers: every byte stream a peer can send (`inp : Bytes`, any length, any content; hence
every sequence of messages of every command, classic or extended, well-formed or not, repeated or
out-of-order version/verack), every environment (`Env`: any hash function, any VerifyHeader /
ProcessHeader answers, any memory limit), every node configuration (verify-only, tx manager,
alternate header handler), every reachable state.
-/
import BRV.Proofs.NodeStep
import BRV.Proofs.MgrLemmas

namespace BRV.Wire
open BRV BRV.Node

/-! ## the extracted tables -/

/-- every entry of the two extracted tables is understood by the model: known `wire.Cmd*`
    constant, known handler function, known guarding condition. A new handler or condition in
    `NewBitcoinNode` / `accept` breaks this until the model is extended. -/
theorem C13_tables_interpreted :
    interpreted Facts.preAcceptHandlers = true ∧ interpreted Facts.acceptHandlers = true := by decide

/-- **C13, table clause.** No command in the table built by `NewBitcoinNode` maps to a handler that
    touches the header repository, the tx manager or the peer address book (handleHeadersTrack,
    handleAddress, handleGetAddresses, handleInventory, handleTx, handleBlock). Stated on the raw
    extracted facts: installing e.g. `handleAddress` in `NewBitcoinNode` makes this false. -/
theorem C13_pretable_harmless :
    (Facts.preAcceptHandlers.all fun en =>
      match Handler.ofName en.2.1 with
      | some h => !h.touchesRepos
      | none => false) = true := by decide

/-- the same for the table the model runs with, and nothing was lost building it. -/
theorem C13_pretable_model :
    preTable.all (fun en => !en.2.touchesRepos) = true ∧ preTable.length = Facts.preAcceptHandlers.length := by
  decide

/-- the repository-touching handlers are installed by `accept` only (the second table), and the
    tx handlers only under their extracted condition. -/
theorem C13_accept_table :
    ((install Facts.acceptHandlers true preTable).get "addr" = some .address) ∧
    ((install Facts.acceptHandlers true preTable).get "headers" = some .headersTrack) ∧
    ((install Facts.acceptHandlers true preTable).get "inv" = some .inventory) ∧
    ((install Facts.acceptHandlers false preTable).get "inv" = none) ∧
    ((install Facts.acceptHandlers false preTable).get "tx" = none) := by decide

/-! ## reachable states -/

/-- a fresh node: configuration is arbitrary, everything else as `NewBitcoinNode` leaves it. -/
def initState (verifyOnly hasTx hasHH : Bool) (pingNonce : Nat) : State :=
  { verifyOnly := verifyOnly, hasTx := hasTx, hasHH := hasHH, pingNonce := pingNonce }

theorem ping_preTable : lookupCmd preTable (ascii "ping") = some .ping := by decide

theorem inv_init (vo tx hh : Bool) (pn : Nat) : Inv (initState vo tx hh pn) :=
  ⟨fun _ => ⟨rfl, rfl, rfl⟩, fun h => (by cases h), fun h => (by cases h), fun _ h => (by cases h), ping_preTable⟩

/-- states of a connection: initial, after any handled message (whatever the bytes), as seen while
    a message is incomplete, after the connection closed, after `RequestBlock` on a ready node
    (the only outside call that changes the table; `nextNode` only hands out ready nodes) and after
    `CancelBlockRequest`. -/
inductive Reach (e : Env) : State → Prop
  | init (vo tx hh : Bool) (pn : Nat) : Reach e (initState vo tx hh pn)
  | step {s s' : State} (inp : Bytes) : Reach e s → (handleMessage e s inp).state = some s' → Reach e s'
  | reqBlock {s : State} (h : Bytes) : Reach e s → s.ready = true → Reach e (requestBlock s h).1
  | cancel {s : State} (h : Bytes) : Reach e s → Reach e (cancelBlock s h).1

theorem requestBlock_frame (s : State) (h : Bytes) (hr : s.verified = true) : Frame s (requestBlock s h).1 := by
  unfold requestBlock
  exact ⟨fun hv => (by rw [hr] at hv; cases hv), rfl, rfl, rfl, rfl, rfl, id, id,
    fun c hc => lookupCmd_set_ne _ _ _ _ (fun hh => hc hh.symm),
    fun _ => ⟨fun _ => ⟨rfl, rfl⟩, fun h => (by cases h), fun _ => rfl, fun h => (by cases h)⟩⟩

theorem runEnd_inv (s : State) (hI : Inv s) : Inv (runEnd s).1 := by
  unfold runEnd
  split
  · exact ⟨fun hv => ⟨(hI.pre hv).1, rfl, (hI.pre hv).2.2⟩, fun h => (by cases h), hI.hs, hI.vo, hI.ping⟩
  · exact ⟨fun hv => ⟨(hI.pre hv).1, rfl, (hI.pre hv).2.2⟩, fun h => (by cases h), hI.hs, hI.vo, hI.ping⟩

theorem runEnd_blk (s : State) (hB : BlkInv s) : BlkInv (runEnd s).1 := by
  unfold runEnd
  split
  · exact ⟨fun h => (by cases h), hB.reader, hB.handler, hB.started⟩
  · exact ⟨hB.armed, hB.reader, hB.handler, hB.started⟩

theorem connectionEnd_eq (s : State) : connectionEnd s = runEnd (streamFailed s) := rfl

theorem streamFailed_inv (s : State) (hI : Inv s) : Inv (streamFailed s) := by
  unfold streamFailed
  by_cases hr : (s.blockReader && s.blockStarted) = true
  · simp only [hr, ↓reduceIte]
    cases hq : s.blockReq with
    | none => simp only []; exact ⟨fun hv => ⟨(hI.pre hv).1, (hI.pre hv).2.1, rfl⟩, hI.rdy, hI.hs, hI.vo, hI.ping⟩
    | some h =>
      simp only []
      have := hI.frame (completeBlock_frame s h (fun hv => (hI.pre hv).2.2))
      exact ⟨this.pre, this.rdy, this.hs, this.vo, this.ping⟩
  · simp only [hr, Bool.false_eq_true, ↓reduceIte]; exact hI

theorem streamFailed_blk (s : State) (hB : BlkInv s) : BlkInv (streamFailed s) := by
  unfold streamFailed
  by_cases hr : (s.blockReader && s.blockStarted) = true
  · simp only [hr, ↓reduceIte]
    have hr' : s.blockReader = true := by
      simp only [Bool.and_eq_true] at hr; exact hr.1
    cases hq : s.blockReq with
    | none =>
      have := hB.reader hr'
      rw [hq] at this; cases this
    | some h =>
      simp only [completeBlock, hq, ↓reduceIte]
      exact ⟨fun h => (by cases h), fun h => (by cases h), fun h => (by cases h), fun h => (by cases h)⟩
  · simp only [hr, Bool.false_eq_true, ↓reduceIte]; exact hB

theorem connectionEnd_inv (s : State) (hI : Inv s) : Inv (connectionEnd s).1 := by
  rw [connectionEnd_eq]; exact runEnd_inv _ (streamFailed_inv s hI)

theorem connectionEnd_blk (s : State) (hB : BlkInv s) : BlkInv (connectionEnd s).1 := by
  rw [connectionEnd_eq]; exact runEnd_blk _ (streamFailed_blk s hB)

theorem cancel_flags_frame (s : State) (st : Bool) (hs : s.stopped = true → st = true) :
    Frame s { s with onStopArmed := false, blockHandler := false, stopped := st } :=
  ⟨fun _ => ⟨rfl, rfl⟩, rfl, rfl, rfl, rfl, rfl, id, hs, fun _ _ => rfl,
   fun hb => ⟨fun h => (by cases h), hb.reader, fun h => (by cases h), hb.started⟩⟩

theorem cancel_unstarted_frame (s : State) (hst : ¬ s.blockStarted = true) :
    Frame s { s with onStopArmed := false, blockHandler := false, blockReader := false, stopped := true } :=
  ⟨fun _ => ⟨rfl, rfl⟩, rfl, rfl, rfl, rfl, rfl, id, fun _ => rfl, fun _ _ => rfl,
   fun _ => ⟨fun h => (by cases h), fun h => (by cases h), fun h => (by cases h), fun h => absurd h hst⟩⟩

theorem cancelBlock_inv (s : State) (h : Bytes) (hI : Inv s) : Inv (cancelBlock s h).1 := by
  unfold cancelBlock
  split
  · exact hI
  · split
    · exact hI
    · split
      · split
        · exact connectionEnd_inv _ (hI.frame (cancel_flags_frame s true (fun _ => rfl)))
        · rename_i hst; exact runEnd_inv _ (hI.frame (cancel_unstarted_frame s hst))
      · exact hI.frame ⟨fun _ => ⟨rfl, rfl⟩, rfl, rfl, rfl, rfl, rfl, id, id, fun _ _ => rfl,
          fun hb => ⟨fun h => (by cases h), hb.reader, fun h => (by cases h), hb.started⟩⟩

theorem cancelBlock_blk (s : State) (h : Bytes) (hB : BlkInv s) : BlkInv (cancelBlock s h).1 := by
  unfold cancelBlock
  split
  · exact hB
  · split
    · exact hB
    · split
      · split
        · exact connectionEnd_blk _ ((cancel_flags_frame s true (fun _ => rfl)).blk hB)
        · rename_i hst
          refine runEnd_blk _ ⟨fun h => (by cases h), fun h => (by cases h), fun h => (by cases h), fun h' => ?_⟩
          exact absurd h' hst
      · exact ⟨fun h => (by cases h), hB.reader, fun h => (by cases h), hB.started⟩

theorem reach_inv (e : Env) (s : State) (h : Reach e s) : Inv s := by
  induction h with
  | init vo tx hh pn => exact inv_init vo tx hh pn
  | step inp _ hs ih => exact handleMessage_inv e _ inp ih _ hs
  | reqBlock h _ hr ih => exact ih.frame (requestBlock_frame _ h (ih.rdy hr))
  | cancel h _ ih => exact cancelBlock_inv _ h ih

/-- **C13 (ready ⇒ verified).** In every reachable state a node that is ready — the only nodes
    `nextNode` hands out for header, transaction and block requests — has completed the handshake
    and has been verified. -/
theorem C13_ready_implies_verified (e : Env) (s : State) (h : Reach e s) :
    s.ready = true → s.verified = true ∧ s.hsComplete = true := by
  intro hr
  have hI := reach_inv e s h
  exact ⟨hI.rdy hr, hI.hs (hI.rdy hr)⟩

/-- until verification the handler table is exactly the extracted pre-accept table. -/
theorem C13_table_until_verified (e : Env) (s : State) (h : Reach e s) :
    s.verified = false → s.table = preTable := fun hv => ((reach_inv e s h).pre hv).1

/-! ## nothing reaches a repository before verification -/

/-- one `handleMessage` on an unverified connection, any input bytes: the effects touch nothing
    before the `accepted` mark, and if the connection is verified afterwards the mark is there. -/
theorem unverified_step (e : Env) (s : State) (inp : Bytes) (hI : Inv s) (hv : s.verified = false) :
    okBefore (handleMessage e s inp).effects = true ∧
    (∀ s', (handleMessage e s inp).state = some s' → s'.verified = true → Effect.accepted ∈ (handleMessage e s inp).effects) := by
  unfold handleMessage
  split
  · exact ⟨rfl, fun s' h hv' => by simp only [Outcome.state, Option.some.injEq] at h; rw [← h, hv] at hv'; cases hv'⟩
  · split
    · exact ⟨rfl, fun s' h hv' => by simp only [Outcome.state, Option.some.injEq] at h; rw [← h] at hv'; simp only [hv] at hv'; cases hv'⟩
    · split
      · exact ⟨rfl, fun s' h hv' => by simp only [Outcome.state, Option.some.injEq] at h; rw [← h, hv] at hv'; cases hv'⟩
      · simp only []
        split
        · split
          · exact ⟨rfl, fun s' h hv' => by simp only [Outcome.state, Option.some.injEq] at h; rw [← h, hv] at hv'; cases hv'⟩
          · exact ⟨rfl, fun s' h hv' => by simp only [Outcome.state, Option.some.injEq] at h; rw [← h] at hv'; simp only [hv] at hv'; cases hv'⟩
        · split
          · split
            · exact ⟨rfl, fun s' h hv' => by simp only [Outcome.state, Option.some.injEq] at h; rw [← h, hv] at hv'; cases hv'⟩
            · exact ⟨rfl, fun s' h hv' => by simp only [Outcome.state, Option.some.injEq] at h; rw [← h, hv] at hv'; cases hv'⟩
          · rename_i hd hl
            rw [(hI.pre hv).1] at hl
            have ht := lookup_pre_harmless _ _ hl
            rw [toOutcome_effects]
            rcases dispatch_unverified e s hd _ _ _ hI hv ht with ⟨hf, hq⟩ | ⟨_, ⟨n, r, hfx, _⟩, _⟩
            · refine ⟨(okBefore_quiet hq).1, fun s' h hv' => ?_⟩
              exfalso
              rcases toOutcome_state _ _ _ h with rfl | rfl
              · rw [hf.verified, hv] at hv'; cases hv'
              · have : s.verified = true := by rw [← hf.verified]; exact hv'
                rw [hv] at this; cases this
            · rw [hfx]
              exact ⟨rfl, fun _ _ _ => by simp⟩

/-- the run loop: while no `accepted` mark has been emitted the connection is unverified. -/
theorem run_okBefore (e : Env) (fuel : Nat) (s : State) (inp : Bytes) (acc : List Effect)
    (hacc : okBefore acc = true)
    (hs : Effect.accepted ∈ acc ∨ (Inv s ∧ s.verified = false)) :
    okBefore (run e fuel s inp acc).1 = true := by
  induction fuel generalizing s inp acc with
  | zero => exact hacc
  | succ fuel ih =>
    unfold run
    rcases hs with hm | ⟨hI, hv⟩
    · -- already accepted: anything may follow
      split
      · exact ih _ _ _ (okBefore_append hacc (Or.inl hm)) (Or.inl (List.mem_append_left _ hm))
      all_goals exact okBefore_append hacc (Or.inl hm)
    · have hstep := unverified_step e s inp hI hv
      split
      · rename_i s' rest fx' heq
        rw [heq] at hstep
        simp only [Outcome.effects, Outcome.state] at hstep
        refine ih _ _ _ (okBefore_append hacc (Or.inr hstep.1)) ?_
        by_cases hv' : s'.verified = true
        · exact Or.inl (List.mem_append_right _ (hstep.2 s' rfl hv'))
        · refine Or.inr ⟨?_, by simpa using hv'⟩
          exact handleMessage_inv e s inp hI s' (by rw [heq]; rfl)
      all_goals
        rename_i heq
        rw [heq] at hstep
        simp only [Outcome.effects] at hstep
        exact okBefore_append hacc (Or.inr hstep.1)

/-- **C13 (nothing before verification).** For every byte stream sent to a fresh node of any
    configuration: in the trace of effects no `ProcessHeader`, no non-empty feed of the alternate
    header handler, no `AddTxID`, no `AddTx`, no `Peers.Add`, no `Peers.Get` (address-book answer)
    and no `UpdateScore` occurs before the `accepted` mark, i.e. before `accept` stored
    `verified`. (`okBefore` scans the whole trace; `VerifyHeader`, which is read-only, sends and
    `Stop` are the only effects allowed before the mark.) -/
theorem C13_no_effect_before_verified (e : Env) (vo tx hh : Bool) (pn : Nat) (inp : Bytes) :
    okBefore (runAll e (initState vo tx hh pn) inp).1 = true :=
  run_okBefore e _ _ _ [] rfl (Or.inr ⟨inv_init vo tx hh pn, rfl⟩)

/-- the same from any reachable unverified state (e.g. mid-handshake), for any further input. -/
theorem C13_no_effect_before_verified_from (e : Env) (s : State) (h : Reach e s) (hv : s.verified = false)
    (inp : Bytes) : okBefore (runAll e s inp).1 = true :=
  run_okBefore e _ _ _ [] rfl (Or.inr ⟨reach_inv e s h, hv⟩)

/-- `okBefore` means what it should: an effect at position `i` that touches a repository has an
    `accepted` mark strictly before it. -/
theorem okBefore_spec (fx : List Effect) (h : okBefore fx = true) (i : Nat) (x : Effect)
    (hx : fx[i]? = some x) (ht : x.touches = true) : ∃ j, j < i ∧ fx[j]? = some Effect.accepted := by
  induction fx generalizing i with
  | nil => simp at hx
  | cons y r ih =>
    by_cases hy : y = .accepted
    · subst hy
      cases i with
      | zero => simp only [List.getElem?_cons_zero, Option.some.injEq] at hx; subst hx; simp [Effect.touches] at ht
      | succ i => exact ⟨0, by omega, rfl⟩
    · have h' : (!y.touches && okBefore r) = true := by
        cases y <;> first | exact absurd rfl hy | exact h
      simp only [Bool.and_eq_true, Bool.not_eq_true'] at h'
      cases i with
      | zero =>
        simp only [List.getElem?_cons_zero, Option.some.injEq] at hx
        subst hx; rw [h'.1] at ht; cases ht
      | succ i =>
        simp only [List.getElem?_cons_succ] at hx
        obtain ⟨j, hj, hjx⟩ := ih h'.2 i hx
        exact ⟨j + 1, by omega, by simpa using hjx⟩

/-! ## verify-only -/

/-- **C13 (verify-only disconnects).** On a verify-only node the step in which verification
    succeeds is the step in which the connection is closed: the outcome is `closed`, `Stop` is among
    the effects and the state is stopped; it is never `ok` or still waiting. -/
theorem C13_verify_only_disconnects (e : Env) (s : State) (inp : Bytes) (hI : Inv s)
    (hv : s.verified = false) (hvo : s.verifyOnly = true) (s' : State)
    (hs : (handleMessage e s inp).state = some s') (hv' : s'.verified = true) :
    (∃ fx, handleMessage e s inp = .closed s' fx ∧ Effect.stop ∈ fx) ∧ s'.stopped = true := by
  unfold handleMessage at hs ⊢
  split at hs
  · simp only [Outcome.state, Option.some.injEq] at hs; rw [← hs, hv] at hv'; cases hv'
  · split at hs
    · simp only [Outcome.state, Option.some.injEq] at hs; rw [← hs] at hv'; simp only [hv] at hv'; cases hv'
    · split at hs
      · simp only [Outcome.state, Option.some.injEq] at hs; rw [← hs, hv] at hv'; cases hv'
      · simp only [] at hs
        split at hs
        · split at hs <;> simp only [Outcome.state, Option.some.injEq] at hs
          · rw [← hs, hv] at hv'; cases hv'
          · rw [← hs] at hv'; simp only [hv] at hv'; cases hv'
        · split at hs
          · split at hs <;> (simp only [Outcome.state, Option.some.injEq] at hs; rw [← hs, hv] at hv'; cases hv')
          · rename_i h1 h2 h3 h4 _ hd hl
            simp only [h1, h2, h3, h4, ↓reduceIte, hl]
            have hl' := hl
            rw [(hI.pre hv).1] at hl'
            have ht := lookup_pre_harmless _ _ hl'
            rcases dispatch_unverified e s hd (leVal ((inp.drop 16).take 4)) ((inp.drop 20).take 4) (inp.drop 24) hI hv ht
              with ⟨hf, _⟩ | ⟨_, ⟨n, r, hfx, hstop⟩, hres⟩
            · exfalso
              rcases toOutcome_state _ _ _ hs with rfl | rfl
              · rw [hf.verified, hv] at hv'; cases hv'
              · have : s.verified = true := by rw [← hf.verified]; exact hv'
                rw [hv] at this; cases this
            · have hr := hres hvo
              unfold toOutcome at hs ⊢
              rw [hr.1] at hs ⊢
              simp only [Outcome.state, Option.some.injEq] at hs
              subst hs
              refine ⟨⟨_, rfl, ?_⟩, hr.2⟩
              rw [hfx]
              simp only [List.mem_cons]
              exact Or.inr (Or.inr (hstop hvo))

/-! ## non-vacuity: concrete runs of the model -/

namespace Example

def env0 : Env :=
  { net := [0xe3, 0xe1, 0xf3, 0xe8], mem := 2 ^ 31, hash := fun b => b.take 4 ++ List.replicate 28 0,
    verifyOk := fun h => hdrNonce h == 7, processOk := fun _ => true }

def frame (cmd : String) (p : Bytes) : Bytes :=
  env0.net ++ (ascii cmd ++ List.replicate (12 - cmd.length) 0) ++ leN 4 p.length ++ (env0.hash p).take 4 ++ p

def versionP : Bytes := List.replicate 46 1
def hdr (nonce : Nat) : Bytes := List.replicate 76 2 ++ leN 4 nonce
def headersP (nonce : Nat) : Bytes := [1] ++ hdr nonce ++ [0]
def addrP : Bytes := [1] ++ List.replicate 28 3 ++ [0x1f, 0x90]

set_option maxRecDepth 100000 in
/-- an `addr` before verification reaches nothing; after version, verack and a verified header the
    same `addr` does reach `Peers.Add` — after the `accepted` mark. -/
example :
    (runAll env0 (initState false true true 0)
      (frame "addr" addrP ++ frame "version" versionP ++ frame "verack" [] ++ frame "addr" addrP ++
       frame "headers" (headersP 7) ++ frame "addr" addrP)).1
    = [.send "verack" 0, .send "protoconf" 0, .send "getheaders" 0, .verifyHeader 7, .accepted,
       .send "sendheaders" 0, .send "getaddr" 0, .send "getheaders" 0, .peersGet, .send "addr" 0,
       .peersAdd 8080] := by decide +kernel

set_option maxRecDepth 100000 in
/-- a verify-only node stops in the verification step. -/
example :
    (runAll env0 (initState true false false 0)
      (frame "version" versionP ++ frame "verack" [] ++ frame "headers" (headersP 7) ++ frame "addr" addrP)).1
    = [.send "verack" 0, .send "protoconf" 0, .send "getheaders" 0, .verifyHeader 7, .accepted, .stop] := by decide +kernel

set_option maxRecDepth 100000 in
/-- a wrong-chain header: `VerifyHeader`, then `Stop`; nothing else, also with an alternate header
    handler installed. -/
example :
    (runAll env0 (initState false true true 0)
      (frame "version" versionP ++ frame "verack" [] ++ frame "headers" (headersP 8))).1
    = [.send "verack" 0, .send "protoconf" 0, .send "getheaders" 0, .verifyHeader 8, .stop] := by decide +kernel

end Example

end BRV.Wire

/-! ## NodeManager: nextNode, RequestHeaders, RequestTxs, RequestBlock, SendTx (Model/Mgr.lean)

The routing model is tied to node_manager.go by the `mgr` correspondence stream: a real
`NodeManager` over real `BitcoinNode`s, each on its own connection to a scripted peer; the flags
the harness read just before a routing call are an input of the replay (`Driver/MgrMain.lean` runs
the very `scan` / loops the theorems below are about). Quantifiers: every list of node ids (with
repetitions), every offset (also beyond the end of the list, as `Clean` can leave it), every view
`Nat → Flags`, every data predicate, every tx-manager content.

With `C13_ready_implies_verified` (above, connection model): a node whose `IsReady()` is true has
completed the handshake and proven its chain, so "ready" below is "verified". -/

namespace BRV.Mgr

/-- **C13 (selection).** `nextNode` only returns a node that is ready, not stopped, not busy and
    has the data; it is one of the managed nodes. In particular a stopped node is never selected. -/
theorem C13_selected_implies_ready (fl : View) (has : HasData) (nodes : List Nat) (off : Nat) (id : Nat)
    (h : (nextNode fl has nodes off).2.2 = some id) :
    (fl id).ready = true ∧ (fl id).stopped = false ∧ (fl id).busy = false ∧ has id = true ∧ id ∈ nodes := by
  have hs := nextNode_selected fl has nodes off id h
  have hf := selectable_flags hs.1
  exact ⟨hf.2.1, hf.1, hf.2.2.1, hf.2.2.2, hs.2.1⟩

/-- **C13 (the scan terminates).** The fuel `nextNode` gives its loop is enough: with that much or
    any larger amount the loop returns the same thing, so the model's "out of fuel" equation is
    never the reason for a `none`. (Every iteration removes a node, advances the offset, or is the
    one wrap: at most `2·len + 2` iterations.) -/
theorem C13_nextNode_fuel_enough (fl : View) (has : HasData) (nodes : List Nat) (off : Nat) (fuel : Nat)
    (hne : nodes ≠ []) (h : 2 * nodes.length + 2 ≤ fuel) :
    scan fl has fuel nodes off false = nextNode fl has nodes off := by
  unfold nextNode
  have : ¬ nodes.length = 0 := by simpa using hne
  rw [if_neg this]
  exact scan_fuel_stable _ _ _ _ _ _ _ (Nat.le_trans (nextNode_measure nodes off) h) (nextNode_measure nodes off)

/-- **C13 (first fit / round robin, part 1).** `nextNode` returns the first node that passes the
    four tests at or after the offset, else the first one before the offset, else nothing. -/
theorem C13_nextNode_first_fit (fl : View) (has : HasData) (nodes : List Nat) (off : Nat) :
    (nextNode fl has nodes off).2.2 =
      ((nodes.drop off).find? (selectable fl has)).or ((nodes.take off).find? (selectable fl has)) := by
  unfold nextNode
  split
  · rename_i h
    have : nodes = [] := List.length_eq_zero_iff.mp h
    subst this
    simp
  · exact scan_find _ _ _ _ _ (nextNode_measure nodes off)

/-- **C13 (fairness within one scan).** If any managed node is ready, idle, not stopped and has the
    data, one call of `nextNode` finds a node (it never reports "No nodes available" then). -/
theorem C13_available_node_is_found (fl : View) (has : HasData) (nodes : List Nat) (off : Nat) (id : Nat)
    (hin : id ∈ nodes) (hsel : selectable fl has id = true) :
    (nextNode fl has nodes off).2.2.isSome = true := by
  rw [C13_nextNode_first_fit]
  have hmem : id ∈ nodes.drop off ∨ id ∈ nodes.take off := by
    rw [← List.take_append_drop off nodes] at hin
    rcases List.mem_append.mp hin with h | h
    · exact Or.inr h
    · exact Or.inl h
  cases hd : (nodes.drop off).find? (selectable fl has) with
  | some x => simp
  | none =>
    cases ht : (nodes.take off).find? (selectable fl has) with
    | some x => simp
    | none =>
      exfalso
      rcases hmem with h | h
      · have := List.find?_eq_none.mp hd id h; simp [hsel] at this
      · have := List.find?_eq_none.mp ht id h; simp [hsel] at this

/-- **C13 (round robin, part 2).** The selected node sits just before the new offset: the next
    request's scan (first fit from the offset) starts behind it. -/
theorem C13_offset_behind_selected (fl : View) (has : HasData) (nodes : List Nat) (off : Nat) (id : Nat)
    (h : (nextNode fl has nodes off).2.2 = some id) :
    0 < (nextNode fl has nodes off).2.1 ∧
      (nextNode fl has nodes off).1[(nextNode fl has nodes off).2.1 - 1]? = some id := by
  have key : ∀ fuel nodes off looped, (scan fl has fuel nodes off looped).2.2 = some id →
      0 < (scan fl has fuel nodes off looped).2.1 ∧
        (scan fl has fuel nodes off looped).1[(scan fl has fuel nodes off looped).2.1 - 1]? = some id := by
    intro fuel
    induction fuel with
    | zero => intro nodes off looped h; simp [scan] at h
    | succ fuel ih =>
      intro nodes off looped h
      by_cases h1 : off ≥ nodes.length
      · rw [scan_wrap _ _ _ _ _ _ h1] at h ⊢
        split at h
        · simp at h
        · rename_i h2; rw [if_neg h2]; exact ih _ _ _ h
      · have hlt : off < nodes.length := by omega
        rw [scan_step _ _ _ _ _ _ hlt] at h ⊢
        split at h
        · rename_i hs; rw [if_pos hs]; exact ih _ _ _ h
        · rename_i hs
          rw [if_neg hs]
          split at h
          · rename_i hsel
            rw [if_pos hsel]
            simp only [Option.some.injEq] at h
            subst h
            simp [hlt]
          · rename_i hsel; rw [if_neg hsel]; exact ih _ _ _ h
  unfold nextNode at h ⊢
  split at h
  · simp at h
  · rename_i hn
    rw [if_neg hn]
    exact key _ _ _ _ h

/-- **C13 (stopped nodes, step).** When the scan reaches a stopped node it removes it from
    `m.nodes` and looks at the same offset again. -/
theorem C13_stopped_removed_when_scanned (fl : View) (has : HasData) (fuel : Nat) (nodes : List Nat) (off : Nat)
    (looped : Bool) (hlt : off < nodes.length) (hs : (fl nodes[off]).stopped = true) :
    scan fl has (fuel + 1) nodes off looped = scan fl has fuel (nodes.eraseIdx off) off looped := by
  rw [scan_step _ _ _ _ _ _ hlt, if_pos hs]

/-- **C13 (stopped nodes, whole call).** `nextNode` keeps the order of `m.nodes`, removes only
    stopped nodes, and a call that finds nothing has removed every stopped node. -/
theorem C13_only_stopped_removed (fl : View) (has : HasData) (nodes : List Nat) (off : Nat) :
    (nextNode fl has nodes off).1.Sublist nodes ∧
    (∀ id ∈ nodes, id ∈ (nextNode fl has nodes off).1 ∨ (fl id).stopped = true) ∧
    ((nextNode fl has nodes off).2.2 = none →
      (nextNode fl has nodes off).1 = nodes.filter (fun id => !(fl id).stopped)) := by
  refine ⟨nextNode_sublist _ _ _ _, fun id hin => nextNode_removed_stopped _ _ _ _ id hin, ?_⟩
  unfold nextNode
  split
  · rename_i h
    have : nodes = [] := List.length_eq_zero_iff.mp h
    subst this
    simp
  · exact scan_none_filter _ _ _ _ _ (nextNode_measure nodes off)

/-- **C13 (RequestHeaders).** Whatever the fuel of the retry loop: the node that is sent the
    `getheaders` is ready, not stopped, idle, and one of the managed nodes. -/
theorem C13_requestHeaders_targets_ready (fl : View) (locOk : Bool) (k : Nat) (nodes : List Nat) (off : Nat)
    (id : Nat) (m : Msg) (h : (id, m) ∈ (reqHeadersLoop fl locOk k nodes off).sends) :
    m = .getheaders ∧ (fl id).ready = true ∧ (fl id).stopped = false ∧ (fl id).busy = false ∧ id ∈ nodes := by
  have := reqHeadersLoop_sends fl locOk k nodes off (id, m) h
  have hf := selectable_flags this.2.1
  exact ⟨this.1, hf.2.1, hf.1, hf.2.2.1, this.2.2.2⟩

/-- **C13 (RequestTxs).** The node that is sent the `getdata` for transactions is ready, not stopped, idle. -/
theorem C13_requestTxs_targets_ready (fl : View) (hasTx : Bool) (k : Nat) (nodes : List Nat) (off : Nat)
    (pend : List TxEntry) (id : Nat) (m : Msg) (h : (id, m) ∈ (reqTxs fl hasTx k nodes off pend).r.sends) :
    (fl id).ready = true ∧ (fl id).stopped = false ∧ (fl id).busy = false ∧ id ∈ nodes := by
  unfold reqTxs at h
  split at h
  · simp at h
  · have := reqTxsLoop_sends fl k nodes off pend (id, m) h
    have hf := selectable_flags this.1
    exact ⟨hf.2.1, hf.1, hf.2.2.1, this.2.2⟩

/-- **C13 (RequestBlock).** The node that is sent the `getdata` for the block is ready, not
    stopped, idle and `hasData` (i.e. `HasBlock(hash, height)`) held for it. -/
theorem C13_requestBlock_targets_ready_with_block (fl : View) (has : HasData) (b : Nat) (height : Option Nat)
    (nodes : List Nat) (off : Nat) (id : Nat) (m : Msg) (h : (id, m) ∈ (reqBlock fl has b height nodes off).sends) :
    m = .getdataBlock b ∧ (fl id).ready = true ∧ (fl id).stopped = false ∧ (fl id).busy = false ∧
      has id = true ∧ id ∈ nodes := by
  unfold reqBlock at h
  split at h
  · simp at h
  · have := reqBlockLoop_sends has b _ fl nodes off [] (id, m) h
    have hf := selectable_flags this.2.1
    exact ⟨this.1, hf.2.1, hf.1, hf.2.2.1, hf.2.2.2, this.2.2.2⟩

/-- **C13 (SendTx).** Every node the transaction is broadcast to is ready, idle and not stopped. -/
theorem C13_sendTx_targets_ready (fl : View) (nodes : List Nat) (id : Nat) (m : Msg)
    (h : (id, m) ∈ sendTx fl nodes) :
    m = .tx ∧ (fl id).ready = true ∧ (fl id).stopped = false ∧ (fl id).busy = false ∧ id ∈ nodes := by
  unfold sendTx at h
  rcases List.mem_map.mp h with ⟨x, hx, he⟩
  simp only [Prod.mk.injEq] at he
  rcases he with ⟨rfl, rfl⟩
  rcases List.mem_filter.mp hx with ⟨hin, hc⟩
  simp only [Bool.and_eq_true, Bool.not_eq_true', Bool.or_eq_false_iff] at hc
  exact ⟨rfl, by simpa using hc.1.1.1, hc.1.2, hc.1.1.2, hin⟩

/-- **C13 (RequestBlock terminates).** A retry (`ErrChannelClosed`) leaves the node stamped busy, so
    the loop ends within `len + 1` rounds: with the fuel `reqBlock` gives, or any larger amount, the
    result is the same and is never the model's "still spinning" outcome. -/
theorem C13_requestBlock_terminates (fl : View) (has : HasData) (b : Nat) (nodes : List Nat) (off : Nat) (fuel : Nat)
    (h : nodes.length + 1 ≤ fuel) :
    reqBlockLoop has b fuel fl nodes off [] = reqBlockLoop has b (nodes.length + 1) fl nodes off [] ∧
    (reqBlockLoop has b fuel fl nodes off []).err ≠ .spin := by
  have hi := idleCount_le_length fl nodes
  exact ⟨reqBlockLoop_fuel_stable _ _ _ _ _ _ _ _ (by omega) (by omega), reqBlockLoop_no_spin _ _ _ _ _ _ _ (by omega)⟩

/-- **C13 (RequestHeaders / RequestTxs never retry on a quiescent view).** `ErrBusy` cannot come
    back from a node that just passed `nextNode` (same mutex, constant view); `ErrChannelClosed`
    only from a node whose `Stop` has been called and whose `run()` has not yet cleared `isReady`.
    If no ready, running node is in that window the loops run exactly one round, whatever fuel ≥ 1.
    (Inside the window the real loop spins under the manager's mutex until `run()` clears
    `isReady`; the model's `Err.spin`.) -/
theorem C13_requestHeaders_single_round (fl : View) (locOk : Bool) (k : Nat) (nodes : List Nat) (off : Nat)
    (hopen : ∀ id ∈ nodes, selectable fl allData id = true → (fl id).sendOk = true) :
    reqHeadersLoop fl locOk (k + 1) nodes off = reqHeadersLoop fl locOk 1 nodes off ∧
    (reqHeadersLoop fl locOk (k + 1) nodes off).err ≠ .spin := by
  rw [reqHeadersLoop, reqHeadersLoop]
  rcases hnx : nextNode fl allData nodes off with ⟨nodes', off', sel⟩
  cases sel with
  | none => simp
  | some id =>
    have hsel := nextNode_selected fl allData nodes off id (by rw [hnx])
    have hf := selectable_flags hsel.1
    have hso := hopen id hsel.2.1 hsel.1
    simp only []
    have : nodeRequestHeaders (fl id) locOk = .ok ∨ nodeRequestHeaders (fl id) locOk = .other := by
      unfold nodeRequestHeaders; rw [hf.2.2.1, hso]; cases locOk <;> simp
    rcases this with h | h <;> rw [h] <;> simp

theorem C13_requestTxs_single_round (fl : View) (k : Nat) (nodes : List Nat) (off : Nat) (pend : List TxEntry)
    (hopen : ∀ id ∈ nodes, selectable fl allData id = true → (fl id).sendOk = true) :
    (reqTxsLoop fl (k + 1) nodes off pend).r.err ≠ .spin ∧
    (reqTxsLoop fl (k + 1) nodes off pend).r.sends = (reqTxsLoop fl 1 nodes off pend).r.sends := by
  rw [reqTxsLoop, reqTxsLoop]
  rcases hnx : nextNode fl allData nodes off with ⟨nodes', off', sel⟩
  cases sel with
  | none => simp
  | some id =>
    have hsel := nextNode_selected fl allData nodes off id (by rw [hnx])
    have hso := hopen id hsel.2.1 hsel.1
    simp only []
    split
    · simp
    · have : nodeRequestTxs (fl id) = .ok := by unfold nodeRequestTxs; rw [hso]; simp
      rw [this]; simp

/-- **HasBlock.** `HasBlock(hash, height)` answers true only for a node that has announced a
    header (`lastHeaderHash` set) which is the block itself or a header of our chain at least as
    high, and never for the block that was last requested from that node. -/
theorem C13_hasBlock_sound (heightOf : Nat → Option Nat) (lastReq lastHdr : Option Nat) (b height : Nat)
    (h : hasBlock heightOf lastReq lastHdr b height = true) :
    lastReq ≠ some b ∧ ∃ l, lastHdr = some l ∧ (l = b ∨ ∃ lh, heightOf l = some lh ∧ height ≤ lh) := by
  unfold hasBlock at h
  split at h
  · simp at h
  · rename_i hreq
    refine ⟨hreq, ?_⟩
    split at h
    · simp at h
    · rename_i l
      refine ⟨l, rfl, ?_⟩
      split at h
      · rename_i hl; exact Or.inl hl
      · split at h
        · simp at h
        · rename_i lh hlh
          exact Or.inr ⟨lh, hlh, by simpa using h⟩

/-! ### non-vacuity -/

namespace Example

def F (ready busy stopped : Bool) (sendOk : Bool := true) : Flags := { ready, busy, stopped, sendOk }

/-- node 0 stopped, 1 unverified (not ready), 2 ready but busy, 3 ready and idle, 4 ready and idle. -/
def view : View := fun i =>
  [F false false true, F false false false, F true true false, F true false false, F true false false].getD i (F false false true)

/-- the scan from offset 1 skips the unready and the busy node and selects node 3; the stopped node 0 stays
    (not scanned); the next call starts behind node 3 and selects node 4; the third call wraps, removes the
    stopped node 0 on its way and selects node 3 again (round robin over the two available nodes). -/
example : nextNode view allData [0, 1, 2, 3, 4] 1 = ([0, 1, 2, 3, 4], 4, some 3) := by decide
example : nextNode view allData [0, 1, 2, 3, 4] 4 = ([0, 1, 2, 3, 4], 5, some 4) := by decide
example : nextNode view allData [0, 1, 2, 3, 4] 5 = ([1, 2, 3, 4], 3, some 3) := by decide

/-- nothing available: every stopped node is removed, the offset ends at the length. -/
example : nextNode view allData [0, 1, 0, 2] 3 = ([1, 2], 2, none) := by decide

/-- an offset beyond the end (left by `Clean`) wraps. -/
example : nextNode view allData [1, 3] 7 = ([1, 3], 2, some 3) := by decide

/-- the hypotheses of `C13_available_node_is_found` and of `C13_selected_implies_ready` hold here. -/
example : selectable view allData 3 = true ∧ 3 ∈ [0, 1, 2, 3, 4] := by decide

/-- RequestBlock with a data predicate: node 3 lacks the block, node 4 has it. -/
example : ((reqBlock view (fun i => i == 4) 7 (some 107) [0, 1, 2, 3, 4] 0).sends,
           (reqBlock view (fun i => i == 4) 7 (some 107) [0, 1, 2, 3, 4] 0).nodes,
           (reqBlock view (fun i => i == 4) 7 (some 107) [0, 1, 2, 3, 4] 0).off) =
    ([(4, Msg.getdataBlock 7)], [1, 2, 3, 4], 4) := by decide

/-- the retry on ErrChannelClosed: node 3's channel is closed (its `Stop` ran, `isReady` not yet cleared):
    RequestHeaders moves on to node 4; RequestBlock stamps node 3 and moves on; with node 3 alone
    RequestHeaders spins (the model's explicit outcome), RequestBlock ends with "not available". -/
def viewClosing : View := fun i => if i = 3 then F true false false false else view i

example : (reqHeadersLoop viewClosing true 5 [1, 2, 3, 4] 0).sends = [(4, Msg.getheaders)] := by decide
example : ((reqBlock viewClosing allData 2 (some 102) [1, 2, 3, 4] 0).sends,
           (reqBlock viewClosing allData 2 (some 102) [1, 2, 3, 4] 0).tried) = ([(4, Msg.getdataBlock 2)], [3, 4]) := by decide
example : (reqHeadersLoop viewClosing true 9 [1, 3] 0).err = .spin := by decide
example : (reqBlock viewClosing allData 2 (some 102) [1, 3] 0).err = .notAvail := by decide

/-- SendTx reaches exactly the ready idle nodes. -/
example : sendTx view [0, 1, 2, 3, 4] = [(3, Msg.tx), (4, Msg.tx)] := by decide

/-- RequestTxs: node 3 announced tx 8 and 9 while they were being requested elsewhere; it is asked for
    them, and a second call (nothing ripe any more for node 4) sends nothing. -/
example : (reqTxs view true 3 [1, 2, 3, 4] 0 [⟨8, [3, 4], true⟩, ⟨9, [3], true⟩, ⟨5, [4], false⟩]).r.sends
    = [(3, Msg.getdataTx [8, 9])] := by decide

/-- HasBlock: announced the block itself; announced a higher header of our chain; announced an unknown
    header; never announced; the block was already requested from this node. -/
example : hasBlock heightOf none (some 7) 7 107 = true ∧ hasBlock heightOf none (some 8) 7 107 = true ∧
    hasBlock heightOf none (some 20) 7 107 = false ∧ hasBlock heightOf none none 7 107 = false ∧
    hasBlock heightOf (some 7) (some 8) 7 107 = false ∧ hasBlock heightOf none (some 6) 7 107 = false := by decide

end Example

/-- **C13 (the routing calls hold the manager's mutex for their whole body)**: regenerated from node_manager.go on
    every run. This is what lets the model replay a routing call under one constant view of the nodes, and what makes
    concurrent callers of `RequestHeaders` / `RequestTxs` / `RequestBlock` / `SendTx` equivalent to a sequence of them. -/
theorem C13_routing_lock_shapes :
    (Facts.lockShapes.filter (fun e => e.1 ∈ ["NodeManager.RequestBlock", "NodeManager.RequestHeaders",
      "NodeManager.RequestTxs", "NodeManager.SendTx"])).map (·.2) = List.replicate 4 "lock-defer" := by decide

end BRV.Mgr
