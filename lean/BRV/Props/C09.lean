/-
C09 — Hash, height and best-chain lookups agree with the accepted tree, always.

Proved here for every repository state: unknown hashes are reported unknown by every lookup; the
"in most-work chain" flag is true exactly when the header reported at that height of the best chain
has the requested hash (the repaired definition); `GetHeader` through the long-lived map never
returns a different header than requested; an extension leaves every earlier lookup of the extended
branch unchanged; pruning keeps every retained height readable unchanged; the height written for a
new header is its parent's height plus one. That the branch height maps equal TRUE heights in every
reachable state (across consolidation, pruning, reload) is the invariant the correspondence checks
on every dump; it is not yet a theorem (`_partial`).
-/
import BRV.Proofs.RepoBasics

namespace BRV.Repo

/-- **C09 (unknown hashes are reported unknown).** -/
theorem C09_unknown (r : Repo) (id : Nat) (h1 : r.branchesFind id = none) (h2 : r.heights.get? id = none) :
    hashHeight r id = none ∧ checkHeader r id = .error .unknown ∧ getHeader r id = .error .unknown ∧
    previousHash r id = none := by
  unfold hashHeight checkHeader getHeader previousHash
  simp [h1, h2]

/-- **C09 (the flag is "is an ancestor-or-equal of the reported tip", read off the best chain).**
    `CheckHeader` reports in-most-work-chain exactly when the header at the reported height of the
    best chain — in memory or in the main files — has the requested hash. -/
theorem C09_flag_iff (r : Repo) (id : Nat) (h : Int) (f : Bool) (hc : checkHeader r id = .ok (h, f)) :
    f = true ↔ ∃ hd, headerAt r h = .ok hd ∧ hd.id = id := by
  have key : ∀ h', inLongest r id h' = true ↔ ∃ hd, headerAt r h' = .ok hd ∧ hd.id = id := by
    intro h'
    unfold inLongest
    cases headerAt r h' with
    | error e => simp
    | ok hd => simp
  unfold checkHeader at hc
  split at hc
  · simp only [Except.ok.injEq, Prod.mk.injEq] at hc
    obtain ⟨rfl, rfl⟩ := hc
    exact key _
  · split at hc
    · simp only [Except.ok.injEq, Prod.mk.injEq] at hc
      obtain ⟨rfl, rfl⟩ := hc
      exact key _
    · cases hc

/-- the same flag for `GetHeader`, and it never hands out another header for a pruned hash. -/
theorem C09_getHeader_fallback_exact (r : Repo) (id : Nat) (hd : Hdr) (h : Int) (f : Bool)
    (hnf : r.branchesFind id = none) (hg : getHeader r id = .ok (hd, h, f)) :
    hd.id = id ∧ f = true ∧ headerAt r h = .ok hd := by
  unfold getHeader at hg
  rw [hnf] at hg
  simp only at hg
  split at hg
  · rename_i h' hh
    split at hg
    · cases hg
    · rename_i hd' hat
      split at hg
      · cases hg
      · rename_i hne
        simp only [Except.ok.injEq, Prod.mk.injEq] at hg
        obtain ⟨rfl, rfl, rfl⟩ := hg
        exact ⟨by simpa using hne, rfl, hat⟩
  · cases hg

/-- **C09 (an extension does not disturb earlier lookups of that branch).** -/
theorem C09_extend_keeps_index (l : List HData) (x : HData) (i : Int) (d : HData) (h : getI l i = some d) :
    getI (l ++ [x]) i = some d := by
  unfold getI at h ⊢
  split at h
  · cases h
  · simp only [*, ↓reduceIte]
    have := List.getElem?_eq_some_iff.mp h
    obtain ⟨hlt, _⟩ := this
    rw [List.getElem?_append_left hlt]; exact h

/-- **C09 (pruning keeps what it retains).** Every height at or above the new lowest height reads
    the same header from the pruned branch as before. -/
theorem C09_prune_keeps (b : Branch) (count : Int) (ht : Int)
    (hc : 0 ≤ count) (hlow : ht ≥ b.parentHeight + b.offset + count) :
    getI (pruneBranch b count).headers (ht - (pruneBranch b count).parentHeight - (pruneBranch b count).offset)
      = getI b.headers (ht - b.parentHeight - b.offset) := by
  unfold pruneBranch
  split
  · rfl
  · rename_i hn
    simp only [not_or, Int.not_lt, Int.not_le] at hn
    unfold getI
    have h1 : ¬ (ht - b.parentHeight - (b.offset + count) < 0) := by omega
    have h2 : ¬ (ht - b.parentHeight - b.offset < 0) := by omega
    simp only [h1, h2, ↓reduceIte, List.getElem?_drop]
    congr 1
    omega

/-- the height of the branch tip is unchanged by pruning. -/
theorem C09_prune_height (b : Branch) (count : Int) : (pruneBranch b count).height = b.height := by
  unfold pruneBranch
  split
  · rfl
  · rename_i hn
    simp only [not_or, Int.not_lt, Int.not_le] at hn
    unfold Branch.height
    simp only [List.length_drop]
    omega

/-- **C09 (a new header is recorded one above its parent).** Both paths of `ProcessHeader` write
    `parent height + 1` for the new hash into the long-lived map. -/
theorem C09_recorded_height (r : Repo) (h : Hdr) (pb : Nat) (ph : Int) (lst : HData) (w : Nat) :
    (addToBranch r h pb ph lst w).heights.get? h.id = some (ph + 1) := by
  unfold addToBranch HMap.get? HMap.set
  simp

/-! ### non-vacuity -/

def exR9 : Repo :=
  { arena := [{ parent := none, parentHeight := -1, first := { id := 0, prev := 99, bits := 0x1d00ffff, time := 1 },
                offset := 1, headers := [{ hdr := { id := 0, prev := 99, bits := 0x1d00ffff, time := 1 }, work := 4295032833 }],
                hmap := [(0, 0)] }],
    branches := [0], longest := 0, heights := [(0, 0)], disableDifficulty := true }

example : checkHeader exR9 0 = .ok (0, true) ∧ checkHeader exR9 5 = .error .unknown := ⟨by rfl, by rfl⟩

end BRV.Repo
