/-
C09 — Hash, height and best-chain lookups agree with the accepted tree, always.

Proved here for every repository state: unknown hashes are reported unknown by every lookup; the
"in most-work chain" flag is true exactly when the header reported at that height of the best chain
has the requested hash (the repaired definition); `GetHeader` through the long-lived map never
returns a different header than requested; an extension leaves every earlier lookup of the extended
branch unchanged; pruning keeps every retained height readable unchanged; the height written for a
new header is its parent's height plus one. For every state reached by ANY history of submissions (forks of forks, refusals, duplicates) the
height maps are exact (`RepoWF`, Proofs/RepoIds + RepoLookup): the height any lookup reports for a
hash is the position at which that very header sits in its branch, `GetHeader` returns the requested
header, `PreviousHash` its true predecessor, and a hash is held at exactly one place. Across
consolidation, pruning and reload the same invariant is checked by the correspondence on every
dump; it is not yet a theorem there (`_partial`).
-/
import BRV.Proofs.RepoBasics
import BRV.Proofs.RepoLookup
import BRV.Proofs.RepoExample
import BRV.Proofs.RepoStreamStep
import BRV.Proofs.LinearWorld
import BRV.Props.C01

namespace BRV.Repo

/-- **C09 (unknown hashes are reported unknown).** -/
theorem C09_unknown (r : Repo) (id : Nat) (h1 : r.branchesFind id = none) (h2 : r.heights.get? id = none) :
    hashHeight r id = none ∧ checkHeader r id = .error .unknown ∧ getHeader r id = .error .unknown ∧
    previousHash r id = none := by
  unfold hashHeight checkHeader getHeader previousHash
  simp [h1, h2]

/-- **C09 (the flag is "is an ancestor-or-equal of the reported tip", read off the best chain).**
    `CheckHeader` reports in-most-work-chain exactly when the header at the reported height of the
    best chain — in memory or in the main files — has the requested hash. -/
theorem C09_flag_iff (r : Repo) (id : Nat) (h : Int) (f : Bool) (hc : checkHeader r id = .ok (h, f)) :
    f = true ↔ ∃ hd, headerAt r h = .ok hd ∧ hd.id = id := by
  have key : ∀ h', inLongest r id h' = true ↔ ∃ hd, headerAt r h' = .ok hd ∧ hd.id = id := by
    intro h'
    unfold inLongest
    cases headerAt r h' with
    | error e => simp
    | ok hd => simp
  unfold checkHeader at hc
  split at hc
  · simp only [Except.ok.injEq, Prod.mk.injEq] at hc
    obtain ⟨rfl, rfl⟩ := hc
    exact key _
  · split at hc
    · simp only [Except.ok.injEq, Prod.mk.injEq] at hc
      obtain ⟨rfl, rfl⟩ := hc
      exact key _
    · cases hc

/-- the same flag for `GetHeader`, and it never hands out another header for a pruned hash. -/
theorem C09_getHeader_fallback_exact (r : Repo) (id : Nat) (hd : Hdr) (h : Int) (f : Bool)
    (hnf : r.branchesFind id = none) (hg : getHeader r id = .ok (hd, h, f)) :
    hd.id = id ∧ f = true ∧ headerAt r h = .ok hd := by
  unfold getHeader at hg
  rw [hnf] at hg
  simp only at hg
  split at hg
  · rename_i h' hh
    split at hg
    · cases hg
    · rename_i hd' hat
      split at hg
      · cases hg
      · rename_i hne
        simp only [Except.ok.injEq, Prod.mk.injEq] at hg
        obtain ⟨rfl, rfl, rfl⟩ := hg
        exact ⟨by simpa using hne, rfl, hat⟩
  · cases hg

/-- **C09 (an extension does not disturb earlier lookups of that branch).** -/
theorem C09_extend_keeps_index (l : List HData) (x : HData) (i : Int) (d : HData) (h : getI l i = some d) :
    getI (l ++ [x]) i = some d := by
  unfold getI at h ⊢
  split at h
  · cases h
  · simp only [*, ↓reduceIte]
    have := List.getElem?_eq_some_iff.mp h
    obtain ⟨hlt, _⟩ := this
    rw [List.getElem?_append_left hlt]; exact h

/-- **C09 (pruning keeps what it retains).** Every height at or above the new lowest height reads
    the same header from the pruned branch as before. -/
theorem C09_prune_keeps (b : Branch) (count : Int) (ht : Int)
    (hc : 0 ≤ count) (hlow : ht ≥ b.parentHeight + b.offset + count) :
    getI (pruneBranch b count).headers (ht - (pruneBranch b count).parentHeight - (pruneBranch b count).offset)
      = getI b.headers (ht - b.parentHeight - b.offset) := by
  unfold pruneBranch
  split
  · rfl
  · rename_i hn
    simp only [not_or, Int.not_lt, Int.not_le] at hn
    unfold getI
    have h1 : ¬ (ht - b.parentHeight - (b.offset + count) < 0) := by omega
    have h2 : ¬ (ht - b.parentHeight - b.offset < 0) := by omega
    simp only [h1, h2, ↓reduceIte, List.getElem?_drop]
    congr 1
    omega

/-- the height of the branch tip is unchanged by pruning. -/
theorem C09_prune_height (b : Branch) (count : Int) : (pruneBranch b count).height = b.height := by
  unfold pruneBranch
  split
  · rfl
  · rename_i hn
    simp only [not_or, Int.not_lt, Int.not_le] at hn
    unfold Branch.height
    simp only [List.length_drop]
    omega

/-- **C09 (a new header is recorded one above its parent).** Both paths of `ProcessHeader` write
    `parent height + 1` for the new hash into the long-lived map. -/
theorem C09_recorded_height (r : Repo) (h : Hdr) (pb : Nat) (ph : Int) (lst : HData) (w : Nat) :
    (addToBranch r h pb ph lst w).heights.get? h.id = some (ph + 1) := by
  unfold addToBranch HMap.get? HMap.set
  simp

/-! ### exactness of the lookups in every state reached by submissions -/

/-- **C09 (the reported height of a hash is where that header sits).** In a well-formed repository
    (every state reached by submissions, `C09_wf_submissions`) the height `HashHeight`/`CheckHeader`
    report for a hash is a height at which a tracked branch holds exactly that header. -/
theorem C09_height_is_position (r : Repo) (hr : RepoWF r) (id : Nat) (h : Int) (hh : hashHeight r id = some h) :
    ∃ bj d, r.at bj h = some d ∧ d.hdr.id = id := by
  have key : ∀ bj, HeldAt r.arena bj id h → ∃ bj d, r.at bj h = some d ∧ d.hdr.id = id := by
    intro bj hheld
    obtain ⟨d, hd, hid⟩ := heldAt_atH r.arena hr.link bj id h hheld
    have hlt : bj < r.arena.length := atHeight_some_lt _ _ _ _ _ hd
    exact ⟨bj, d, by rw [Repo.at_eq_atH r hr.link.dec bj hlt]; exact hd, hid⟩
  unfold hashHeight at hh
  cases hf : r.branchesFind id with
  | some x =>
    obtain ⟨bi, h'⟩ := x
    rw [hf] at hh
    simp only [Option.some.injEq] at hh
    subst hh
    exact key bi (branchesFind_owner r hr.link hr.ids hr.list id bi h' hf)
  | none =>
    rw [hf] at hh
    obtain ⟨bj, hheld⟩ := hr.heights id h hh
    exact key bj hheld

/-- **C09 (a hash is held at one place only)**: two branches holding the same hash are the same
    branch and the same height — so every lookup path reports the same height. -/
theorem C09_position_unique (r : Repo) (hr : RepoWF r) (id bi bj : Nat) (h h' : Int)
    (h1 : HeldAt r.arena bi id h) (h2 : HeldAt r.arena bj id h') : bi = bj ∧ h = h' :=
  heldAt_unique r.arena r.branches hr.ids bi bj id h h' h1 h2

/-- **C09 (`GetHeader` returns the requested header and is available while the hash is tracked).** -/
theorem C09_getHeader_tracked (r : Repo) (hr : RepoWF r) (id bi : Nat) (h : Int)
    (hf : r.branchesFind id = some (bi, h)) :
    ∃ d, getHeader r id = .ok (d.hdr, h, inLongest r id h) ∧ d.hdr.id = id ∧ r.at bi h = some d := by
  have hheld := branchesFind_owner r hr.link hr.ids hr.list id bi h hf
  obtain ⟨d, hd, hid⟩ := heldAt_atH r.arena hr.link bi id h hheld
  have hlt : bi < r.arena.length := atHeight_some_lt _ _ _ _ _ hd
  have hat : r.at bi h = some d := by rw [Repo.at_eq_atH r hr.link.dec bi hlt]; exact hd
  refine ⟨d, ?_, hid, hat⟩
  unfold getHeader
  rw [hf]
  simp only [hat]

/-- **C09 (`GetHeader` never hands out another header)** — whichever path answers. -/
theorem C09_getHeader_exact (r : Repo) (hr : RepoWF r) (id : Nat) (hd : Hdr) (h : Int) (f : Bool)
    (hg : getHeader r id = .ok (hd, h, f)) : hd.id = id := by
  cases hf : r.branchesFind id with
  | some x =>
    obtain ⟨bi, h'⟩ := x
    obtain ⟨d, hg', hid, _⟩ := C09_getHeader_tracked r hr id bi h' hf
    rw [hg'] at hg
    simp only [Except.ok.injEq, Prod.mk.injEq] at hg
    rw [← hg.1]; exact hid
  | none => exact (C09_getHeader_fallback_exact r id hd h f hf hg).1

/-- **C09 (`PreviousHash` is the predecessor named by the requested header).** -/
theorem C09_previousHash_exact (r : Repo) (hr : RepoWF r) (id p : Nat) (h' : Int)
    (hp : previousHash r id = some (p, h')) :
    ∃ bi d, r.at bi (h' + 1) = some d ∧ d.hdr.id = id ∧ d.hdr.prev = p := by
  unfold previousHash at hp
  cases hf : r.branchesFind id with
  | none => rw [hf] at hp; cases hp
  | some x =>
    obtain ⟨bi, h⟩ := x
    rw [hf] at hp
    simp only at hp
    cases he : r.at bi (h - 1) with
    | none => rw [he] at hp; cases hp
    | some e =>
      rw [he] at hp
      simp only [Option.map_some, Option.some.injEq, Prod.mk.injEq] at hp
      obtain ⟨rfl, rfl⟩ := hp
      obtain ⟨d, _, hid, hat⟩ := C09_getHeader_tracked r hr id bi h hf
      have hlt : bi < r.arena.length := atHeight_some_lt _ _ _ _ _ hat
      have e1 : h - 1 + 1 = h := by omega
      refine ⟨bi, d, by rw [e1]; exact hat, hid, ?_⟩
      rw [Repo.at_eq_atH r hr.link.dec bi hlt] at hat he
      exact atH_linked r.arena hr.link bi h d e hat he

/-- **C09 (submission histories).** Every state reached from a well-formed one (e.g. genesis only)
    by ANY finite history of header submissions is well-formed, so the four theorems above apply to it. -/
theorem C09_wf_submissions (r : Repo) (hs : List (Hdr × Bool)) (hr : RepoWF r) (hq : NoAutoClean r hs) :
    RepoWF (submitAll r hs) := repoWF_submitAll r hs hr hq

/-- **C09 (every accepted header is known, at its height, for the rest of the session).** In a
    history of submissions from genesis: a header that passed the checks at some point (was accepted
    at height `ph + 1`) is reported by `HashHeight` with exactly that height after ANY further
    submissions — it is never forgotten and its height never changes. -/
theorem C09_accepted_stays_known (r : Repo) (h : Hdr) (ok : Bool) (hs : StreamWF r) (hlv : r.longest < r.arena.length)
    (hnc : ∀ pb ph lst, precheck r h ok = .inr (pb, ph, lst) →
      Int.tmod ((r.br pb).height + 1) (Facts.autoCleanModulus : Int) ≠ 0)
    (pb : Nat) (ph : Int) (lst : HData) (hpc : precheck r h ok = .inr (pb, ph, lst))
    (later : List (Hdr × Bool)) (hq : NoAutoClean (processHeader r h ok).1 later) :
    hashHeight (submitAll (processHeader r h ok).1 later) h.id = some (ph + 1) := by
  obtain ⟨⟨b1, hheld⟩, _⟩ := passed_then_held r h ok hs hlv hnc pb ph lst hpc
  have hF := streamWF_processHeader r h ok hs hnc
  have hend := streamWF_submitAll _ later hF hq
  have hheld' := heldAt_submitAll _ later hq b1 h.id (ph + 1) hheld
  have hsome := branchesFind_of_held _ hend.chain.wf.ids b1 h.id _ hheld'
  obtain ⟨x, hx⟩ := Option.isSome_iff_exists.mp hsome
  obtain ⟨bi, hh⟩ := x
  have hown := branchesFind_owner _ hend.chain.wf.link hend.chain.wf.ids hend.chain.wf.list h.id bi hh hx
  have := (heldAt_unique _ _ hend.chain.wf.ids bi b1 h.id hh (ph + 1) hown hheld').2
  unfold hashHeight
  rw [hx]
  simp only [this]

/-! ### non-vacuity -/

def exR9 : Repo := genesisRepo

example : checkHeader exR9 0 = .ok (0, true) ∧ checkHeader exR9 5 = .error .unknown := ⟨by rfl, by rfl⟩

/-- the genesis-only repository is well-formed (the hypotheses of the theorems above are met). -/
example : RepoWF genesisRepo := genesisRepo_wf


/-- **C09 in the linear world, at any length**: after ANY history of submissions that extend the tip — of
    any length, across the automatic clean every 10000 heights, with Cleans, Saves and Loads of any depth
    in between — `Hash(h)` is the `h`-th accepted header for every height of the chain (served from memory
    or from the main-chain files), heights beyond the tip are refused, and `HashHeight` of every accepted
    header is exactly its position, of every other hash unknown. -/
theorem C09_linear_world (r0 : Repo) (c0 : List HData) (k0 m0 : Nat) (h0 : PLin r0 c0 k0 m0) (ops : List LinOp)
    (hh : LinHist r0 ops) :
    ∃ c : List HData,
      tipHeight (runOps r0 ops) = (c.length : Int) - 1 ∧
      (∀ (h : Nat) (d : HData), c[h]? = some d →
        headerAt (runOps r0 ops) h = .ok d.hdr ∧ hashHeight (runOps r0 ops) d.hdr.id = some (h : Int)) ∧
      (∀ h : Int, (c.length : Int) ≤ h → headerAt (runOps r0 ops) h = .error .beyondTip) ∧
      (∀ id, (∀ d ∈ c, d.hdr.id ≠ id) → hashHeight (runOps r0 ops) id = none) := by
  obtain ⟨c, k, m, hp⟩ := plin_history ops r0 c0 k0 m0 h0 hh
  obtain ⟨a1, _, a3, a4, a5⟩ := plin_obs hp
  refine ⟨c, a1, ?_, a4, ?_⟩
  · intro h d hd
    refine ⟨a3 h d hd, ?_⟩
    rw [a5, (posOf_some_iff c hp.nodup d.hdr.id h).mpr ⟨d, hd, rfl⟩]; rfl
  · intro id hne
    rw [a5]
    cases hpos : posOf c id with
    | none => rfl
    | some i =>
      obtain ⟨d, hd, hid⟩ := (posOf_some_iff c hp.nodup id i).mp hpos
      exact absurd hid (hne d (List.mem_of_getElem? hd))

/-- non-vacuity: genesis, three headers, a Clean that prunes, a fourth header, Save, Load with depth 1, a
    fifth header — a linear history in the sense of the theorem. -/
def exLinOps : List LinOp :=
  [.submit { id := 1, prev := 0, bits := 0x1d00ffff, time := 2 } true, .submit { id := 2, prev := 1, bits := 0x1d00ffff, time := 3 } true,
   .submit { id := 3, prev := 2, bits := 0x1d00ffff, time := 4 } true, .clean 1,
   .submit { id := 4, prev := 3, bits := 0x1d00ffff, time := 5 } true, .save,
   .load 1 { id := 0, prev := 99, bits := 0x1d00ffff, time := 1 },
   .submit { id := 5, prev := 4, bits := 0x1d00ffff, time := 6 } true, .clean 0]

example : LinHist genesisRepo exLinOps := linHist_of_B _ _ (by decide)
example : tipId (runOps genesisRepo exLinOps) = 5 ∧ tipHeight (runOps genesisRepo exLinOps) = 5 ∧
    ((runOps genesisRepo exLinOps).at 0 4).isNone = true := by decide

/-- **C09 from any loaded state (held headers)**: after Load of a consistent image without repeated hashes and
    any forest history, for every header a tracked branch holds in memory `Branches.Find` answers with that
    branch and `HashHeight` is exactly the header's position — and no other tracked place holds the hash. -/
theorem C09_held_exact_after_load (r0 : Repo) (depth : Int) (hd : 0 ≤ depth) (g : Hdr) (hst : StoreOK r0.store)
    (hu : StoreUniq r0.store) (ops : List FOp) :
    ∃ rl, load r0 depth g = (rl, none) ∧
      (FHist rl ops → ∀ bi ∈ (ops.foldl applyF rl).branches, ∀ (i : Nat) (d : HData),
        ((ops.foldl applyF rl).br bi).headers[i]? = some d →
          hashHeight (ops.foldl applyF rl) d.hdr.id =
            some (((ops.foldl applyF rl).br bi).parentHeight + ((ops.foldl applyF rl).br bi).offset + (i : Int)) ∧
          ∀ bj ∈ (ops.foldl applyF rl).branches, ∀ (j : Nat) (e : HData),
            ((ops.foldl applyF rl).br bj).headers[j]? = some e → e.hdr.id = d.hdr.id → bj = bi ∧ j = i) := by
  obtain ⟨rl, hl, hok⟩ := load_sound r0 depth hd g hst
  refine ⟨rl, hl, fun hh bi hbi i d hdd => ?_⟩
  have hi0 := load_idOK r0 depth g rl hok hl hu
  obtain ⟨hf, hi⟩ := idOK_forest_ops ops rl hok.forest ⟨hok.tip, hok.heaviest⟩ hi0 hh
  exact ⟨hashHeight_held _ hf hi bi hbi i d hdd, fun bj hbj j e he heq => hi.uniq bj hbj bi hbi j i e d he hdd heq⟩


end BRV.Repo
