/-
C11 — Save then Load restores the same repository.

Proved here for every repository state: what Save writes for a branch without an earlier file is
exactly that branch (first header, parent height, offset, headers with accumulated work), and
rebuilding a branch from its file gives back those fields with a height map over exactly its
headers; a branch saved again after pruning is merged with its earlier file so the file keeps the
full history (`C11_merge_keeps_history`); Save writes the index naming every tracked branch in
order, after the branch files (C12); the invalid list round-trips (C17_persists_list,
C17_save_writes_list); loading storage without an index starts from genesis; the 112-byte
record, 1000 records per file and format versions are the extracted constants.

For every LINEAR chain (a repository reached by submissions from genesis that holds one branch —
a node that never saw a fork — of any length, across file boundaries) and every load depth ≥ 0,
`C11_save_load_linear`: Save succeeds, Load of what it wrote succeeds, and the loaded repository
reports the same tip (height, hash, work), the same header at EVERY height ≥ 0 (in memory above
the load depth, from the main-chain files below it), the same height for EVERY hash (pruned
headers through `loadHistoricalHashHeights`, whose file reading is specified exactly; unknown
hashes stay unknown), and the stored invalid list merged with the configured one. With side
branches (sorting and linking of the loaded branches), repeated generations and consolidations
the observational equivalence is checked on every generated history by the correspondence
(`dump; save; load; dump`, small and real depths) and is not yet a theorem (`_partial`).
-/
import BRV.Props.C10
import BRV.Props.C12
import BRV.Props.C17
import BRV.Proofs.RepoSaveLoad
import BRV.Proofs.LinearWorld

namespace BRV.Repo

/-- **C11 (a first Save of a branch writes the branch).** -/
theorem C11_branch_file_fresh (r : Repo) (b : Branch) (h : List.lookup b.first.id r.store.branches = none) :
    ∃ r', branchSave r b = .ok r' ∧
      List.lookup b.first.id r'.store.branches =
        some { first := b.first, parentHeight := b.parentHeight, offset := b.offset, headers := b.headers } := by
  unfold branchSave
  rw [h]
  refine ⟨_, rfl, ?_⟩
  simp [Repo.emit, Store.apply, assocSet, List.lookup]

/-- **C11 (rebuilding a branch from its file).** -/
theorem C11_branch_of_file (bf : BranchFile) :
    (branchOfFile bf).first = bf.first ∧ (branchOfFile bf).parentHeight = bf.parentHeight ∧
    (branchOfFile bf).offset = bf.offset ∧ (branchOfFile bf).headers = bf.headers ∧
    (branchOfFile bf).height = bf.parentHeight + bf.offset + bf.headers.length - 1 := by
  unfold branchOfFile Branch.height
  exact ⟨rfl, rfl, rfl, rfl, rfl⟩

/-- **C11 (a pruned branch saved again keeps its full history in the file).** The earlier file's
    first `offset difference` records are kept and the in-memory headers appended. -/
theorem C11_merge_keeps_history (r : Repo) (b : Branch) (prev : BranchFile) (r' : Repo)
    (hp : List.lookup b.first.id r.store.branches = some prev) (hs : branchSave r b = .ok r') :
    ∃ keep, keep = prev.headers.take (b.offset - prev.offset).toNat ∧
      0 ≤ b.offset - prev.offset ∧ b.offset - prev.offset ≤ prev.headers.length ∧
      List.lookup b.first.id r'.store.branches = some { prev with headers := keep ++ b.headers } := by
  unfold branchSave at hs
  rw [hp] at hs
  simp only at hs
  by_cases hb : b.offset - prev.offset < 0 ∨ b.offset - prev.offset > prev.headers.length
  · simp only [sliceTo, hb, ↓reduceIte] at hs; cases hs
  · simp only [sliceTo, hb, ↓reduceIte, Except.ok.injEq] at hs
    simp only [not_or, Int.not_lt, Int.not_le] at hb
    rw [← hs]
    refine ⟨_, rfl, hb.1, hb.2, ?_⟩
    simp [Repo.emit, Store.apply, assocSet]

/-- **C11 (the index names every tracked branch, in order).** -/
theorem C11_index_written (r r' : Repo) (h : saveBranches r = .ok r') :
    r'.store.index = some (r.branches.map (fun bi => (r.br bi).first.id)) := by
  unfold saveBranches at h
  split at h
  · cases h
  · simp only [Except.ok.injEq] at h
    rw [← h]
    simp [Repo.emit, Store.apply]

/-- **C11 (empty storage).** Loading storage with no branch index and no legacy files starts a
    repository holding only genesis. -/
theorem C11_load_empty (r : Repo) (depth : Int) (g : Hdr) (hi : r.store.index = none) (hv : r.store.mainV0 = [])
    (hb : Work.blockWork g.bits ≠ none) :
    (load r depth g).2 = none ∧ (load r depth g).1.branches = [0] ∧ (load r depth g).1.longest = 0 ∧
    (load r depth g).1.arena.length = 1 := by
  unfold load
  simp only [freshRepo, hi, hv, List.isEmpty_nil, ↓reduceIte]
  unfold newBranch
  simp only
  cases hw : Work.blockWork g.bits with
  | none => exact absurd hw hb
  | some w => simp

/-- **C11 (record and file format constants of the source).** -/
theorem C11_format_constants :
    Facts.headerDataSerializeSize = 112 ∧ Facts.headersPerFile = 1000 ∧ Facts.headersVersion = 1 ∧ Facts.branchVersion = 0 := by
  decide

/-! ### non-vacuity -/

example : (load ({} : Repo) 10000 { id := 0, prev := 99, bits := 0x1d00ffff, time := 1 }).1.branches = [0] :=
  (C11_load_empty {} 10000 _ rfl rfl (by decide)).2.1

/-- **C11 (Save then Load restores the same repository — linear chains, any load depth).** -/
theorem C11_save_load_linear (r : Repo) (hl : Linear r) (depth : Int) (hd : 0 ≤ depth) (g : Hdr) :
    ∃ rs rl, save r = (rs, none) ∧ load rs depth g = (rl, none) ∧
      tipHeight rl = tipHeight r ∧ tipId rl = tipId r ∧ tipWork rl = tipWork r ∧
      (∀ k : Int, 0 ≤ k → headerAt rl k = headerAt r k) ∧ (∀ id, hashHeight rl id = hashHeight r id) ∧
      rl.invalid = mergedInvalid rs.store rs.cfg ∧ rs.store.invalid = some r.invalid :=
  save_load_linear r hl depth hd g

/-- what Save writes for such a chain, exactly: header `k` is record `k % 1000` of main file
    `k / 1000` and nothing else is in those files; one branch file; the index naming it. -/
theorem C11_save_writes_linear (r : Repo) (hl : Linear r) :
    ∃ rs : Repo, save r = (rs, none) ∧
      FilesExact rs.store.main (r.br 0).headers ((r.br 0).headers.length / H + 1) ∧
      rs.store.branches = [((r.br 0).first.id, rootFile (r.br 0))] ∧
      rs.store.index = some [(r.br 0).first.id] ∧ rs.store.invalid = some r.invalid := by
  obtain ⟨rs, h1, h2, h3, h4, h5, _⟩ := save_linear r hl
  exact ⟨rs, h1, h2, h3, h4, h5⟩

/-- the hypotheses are met: genesis plus three accepted headers is a linear chain. -/
example : Linear exC10 := by
  have hq : NoAutoClean genesisRepo [({ id := 1, prev := 0, bits := 0x1d00ffff, time := 2 }, true),
      ({ id := 2, prev := 1, bits := 0x1d00ffff, time := 3 }, true), ({ id := 3, prev := 2, bits := 0x1d00ffff, time := 4 }, true)] :=
    noAutoClean_of_B _ _ (by decide)
  refine ⟨streamWF_submitAll _ _ genesisRepo_streamWF hq,
    heightsComplete_submitAll _ _ genesisRepo_wf genesis_heightsComplete hq, by decide, by decide, rfl, ?_⟩
  intro d hd
  have : (exC10.br 0).headers[0]? = some { hdr := { id := 0, prev := 99, bits := 0x1d00ffff, time := 1 }, work := 4295032833 } := by decide
  rw [this] at hd
  simp only [Option.some.injEq] at hd
  subst hd
  rfl


/-- **C11 in the linear world, every generation.** At any point of any history of tip-extending
    submissions, Cleans, Saves and Loads (any length, across file and prune boundaries, branch files appended
    to after pruning, any number of earlier Save/Load generations): Save succeeds, Load of what it wrote
    with any depth succeeds, the loaded repository reports the same tip, the same header at every height,
    the same height for every hash, the stored invalid list merged with the configured one — and it is again
    a linear world of the same chain, so every later tip-extending submission and maintenance operation is
    covered by the same theorems. -/
theorem C11_linear_generations (r0 : Repo) (c0 : List HData) (k0 m0 : Nat) (h0 : PLin r0 c0 k0 m0) (ops : List LinOp)
    (hh : LinHist r0 ops) (depth : Int) (hd : 0 ≤ depth) (g : Hdr) :
    ∃ (rs rl : Repo), save (runOps r0 ops) = (rs, none) ∧ load rs depth g = (rl, none) ∧
      tipHeight rl = tipHeight (runOps r0 ops) ∧ tipId rl = tipId (runOps r0 ops) ∧ tipWork rl = tipWork (runOps r0 ops) ∧
      (∀ h : Nat, headerAt rl h = headerAt (runOps r0 ops) h) ∧ (∀ id, hashHeight rl id = hashHeight (runOps r0 ops) id) ∧
      rl.invalid = mergedInvalid rs.store rs.cfg ∧ rs.store.invalid = some (runOps r0 ops).invalid ∧
      LinHist (runOps r0 ops) [.save, .load depth g] := by
  obtain ⟨c, k, m, hp⟩ := plin_history ops r0 c0 k0 m0 h0 hh
  obtain ⟨rs, rl, k', hs, hl, _, h1, h2, h3, h4, h5, h6, h7⟩ := save_load_obs_lin hp depth hd g
  refine ⟨rs, rl, hs, hl, h1, h2, h3, h4, h5, h6, h7, trivial, ?_, trivial⟩
  show 0 ≤ depth ∧ (applyOp (runOps r0 ops) .save).store.index.isSome = true
  obtain ⟨rs', d0, hs', _, _, hidx, _⟩ := save_lin hp
  refine ⟨hd, ?_⟩
  simp only [applyOp, hs', hidx]; rfl

/-- **C11 (LoadBranch rebuilds the hash→height map from the saved prune offset), tie to the source.** Regenerated
    from /repo on every run: the map starts at `parentHeight + offset` (the model's `loadBranch` does the same), not at
    `parentHeight + 1` — a reloaded branch reports every hash at the height it was saved at. -/
theorem C11_loadBranch_height_start_in_source :
    Facts.loadBranchHeightStart = "result.parentHeight + result.offset" := by decide

end BRV.Repo
