/-
C09 — "Range and height queries on the best chain return the same headers whether they are served from
memory or from storage": `getHeaders` (Repository.GetHeaders) against `headerAt` (Repository.Header /
Hash by height), for every repository state — whatever is held in memory, whatever the storage image —
every start height and every maximum.
-/
import BRV.Model.RepoOps

namespace BRV.Repo

/-- one step of the range loop serves exactly what the height query serves. -/
theorem headerAt_of_at (r : Repo) (h : Int) (d : HData) (hle : ¬ h > (r.br r.longest).height)
    (hat : r.at r.longest h = some d) : headerAt r h = .ok d.hdr := by
  unfold headerAt
  rw [if_neg hle, hat]

theorem headerAt_of_file (r : Repo) (h : Int) (recs : List HData) (d : HData) (hle : ¬ h > (r.br r.longest).height)
    (hat : r.at r.longest h = none) (hdata : getData r (Int.tdiv h hpf) = .ok recs)
    (hget : getI recs (h - Int.tdiv h hpf * hpf) = some d) : headerAt r h = .ok d.hdr := by
  unfold headerAt
  rw [if_neg hle, hat]
  simp only [hdata, hget]

theorem headerAt_file_short (r : Repo) (h : Int) (recs : List HData) (hle : ¬ h > (r.br r.longest).height)
    (hat : r.at r.longest h = none) (hdata : getData r (Int.tdiv h hpf) = .ok recs)
    (hget : getI recs (h - Int.tdiv h hpf * hpf) = none) : headerAt r h = .error .fileShort := by
  unfold headerAt
  rw [if_neg hle, hat]
  simp only [hdata, hget]

theorem headerAt_file_err (r : Repo) (h : Int) (e : ReadErr) (hle : ¬ h > (r.br r.longest).height)
    (hat : r.at r.longest h = none) (hdata : getData r (Int.tdiv h hpf) = .error e) : headerAt r h = .error e := by
  unfold headerAt
  rw [if_neg hle, hat]
  simp only [hdata]

/-- what the loop has appended from height `h` on (`suf`) is, position by position, what the height
    query serves, and the loop stops early only at a height the height query refuses as well. -/
theorem getHeaders_go_ok (r : Repo) (k : Nat) (h : Int) (acc l : List Hdr) (hgo : getHeaders.go r k h acc = .ok l) :
    ∃ suf, l = acc.reverse ++ suf ∧ suf.length ≤ k ∧
      (∀ (i : Nat) (x : Hdr), suf[i]? = some x → headerAt r (h + i) = .ok x) ∧
      (suf.length < k → ∃ e, headerAt r (h + suf.length) = .error e) := by
  induction k generalizing h acc with
  | zero =>
    simp only [getHeaders.go] at hgo
    cases hgo
    exact ⟨[], by simp, Nat.le_refl _, by intro i x hx; simp at hx, by intro hlt; omega⟩
  | succ k ih =>
    have hcons : ∀ (d : HData), headerAt r h = .ok d.hdr → getHeaders.go r k (h + 1) (d.hdr :: acc) = .ok l →
        ∃ suf, l = acc.reverse ++ suf ∧ suf.length ≤ k + 1 ∧
          (∀ (i : Nat) (x : Hdr), suf[i]? = some x → headerAt r (h + i) = .ok x) ∧
          (suf.length < k + 1 → ∃ e, headerAt r (h + suf.length) = .error e) := by
      intro d hd hrec
      obtain ⟨s', hl, hlen, hel, hstop⟩ := ih (h + 1) (d.hdr :: acc) hrec
      refine ⟨d.hdr :: s', by rw [hl]; simp, by simp; omega, ?_, ?_⟩
      · intro i x hx
        cases i with
        | zero =>
          simp only [List.getElem?_cons_zero, Option.some.injEq] at hx
          subst hx
          simpa using hd
        | succ i =>
          simp only [List.getElem?_cons_succ] at hx
          have := hel i x hx
          rw [show h + ((i + 1 : Nat) : Int) = h + 1 + (i : Int) by omega]
          exact this
      · intro hlt
        simp only [List.length_cons] at hlt ⊢
        obtain ⟨e, he⟩ := hstop (by omega)
        exact ⟨e, by rw [show h + ((s'.length + 1 : Nat) : Int) = h + 1 + (s'.length : Int) by omega]; exact he⟩
    simp only [getHeaders.go] at hgo
    split at hgo
    · rename_i hgt
      cases hgo
      refine ⟨[], by simp, Nat.zero_le _, by intro i x hx; simp at hx, ?_⟩
      intro _
      refine ⟨.beyondTip, ?_⟩
      simp only [List.length_nil, Int.ofNat_zero, Int.add_zero]
      unfold headerAt
      rw [if_pos hgt]
    · rename_i hle
      split at hgo
      · rename_i d hat
        exact hcons d (headerAt_of_at r h d hle hat) hgo
      · rename_i hat
        split at hgo
        · cases hgo
        · rename_i recs hdata
          split at hgo
          · rename_i hget
            cases hgo
            refine ⟨[], by simp, Nat.zero_le _, by intro i x hx; simp at hx, ?_⟩
            intro _
            refine ⟨.fileShort, ?_⟩
            simp only [List.length_nil, Int.ofNat_zero, Int.add_zero]
            exact headerAt_file_short r h recs hle hat hdata hget
          · rename_i d hget
            exact hcons d (headerAt_of_file r h recs d hle hat hdata hget) hgo

/-- a read error of the range is the read error of the height query at the height where it happened. -/
theorem getHeaders_go_err (r : Repo) (k : Nat) (h : Int) (acc : List Hdr) (e : ReadErr)
    (hgo : getHeaders.go r k h acc = .error e) : ∃ i : Nat, i < k ∧ headerAt r (h + i) = .error e := by
  induction k generalizing h acc with
  | zero => simp only [getHeaders.go] at hgo; cases hgo
  | succ k ih =>
    have hrec : ∀ acc', getHeaders.go r k (h + 1) acc' = .error e → ∃ i : Nat, i < k + 1 ∧ headerAt r (h + i) = .error e := by
      intro acc' hr
      obtain ⟨i, hi, he⟩ := ih (h + 1) acc' hr
      exact ⟨i + 1, by omega, by rw [show h + ((i + 1 : Nat) : Int) = h + 1 + (i : Int) by omega]; exact he⟩
    simp only [getHeaders.go] at hgo
    split at hgo
    · cases hgo
    · rename_i hle
      split at hgo
      · exact hrec _ hgo
      · rename_i hat
        split at hgo
        · rename_i e' hdata
          cases hgo
          exact ⟨0, by omega, by simpa using headerAt_file_err r h e hle hat hdata⟩
        · split at hgo
          · cases hgo
          · exact hrec _ hgo

/-- **C09 (a range is the height queries, position by position).** Every header `GetHeaders(start, max)`
    returns at position `i` is the header the height query returns for `start + i` — whether either is
    served from memory or from a main file. -/
theorem C09_range_eq_height_queries (r : Repo) (start : Int) (max : Nat) (l : List Hdr)
    (h : getHeaders r start max = .ok l) (i : Nat) (x : Hdr) (hx : l[i]? = some x) :
    headerAt r (start + i) = .ok x := by
  unfold getHeaders at h
  obtain ⟨suf, hl, _, hel, _⟩ := getHeaders_go_ok r _ start [] l h
  simp only [List.reverse_nil, List.nil_append] at hl
  subst hl
  exact hel i x hx

/-- **C09 (a range is never longer than asked — for a positive maximum — and stops early only where the height query stops).** A range
    shorter than `max` ends directly below a height the height query refuses too (above the tip, or not in
    the file) — so a stored range cannot end at a file boundary below the tip while `Hash(height)` still
    serves the next height. -/
theorem C09_range_complete (r : Repo) (start : Int) (max : Nat) (hm : 0 < max) (l : List Hdr)
    (h : getHeaders r start max = .ok l) :
    l.length ≤ max ∧ (l.length < max → ∃ e, headerAt r (start + l.length) = .error e) := by
  unfold getHeaders at h
  rw [if_neg (by omega)] at h
  obtain ⟨suf, hl, hlen, _, hstop⟩ := getHeaders_go_ok r max start [] l h
  simp only [List.reverse_nil, List.nil_append] at hl
  subst hl
  exact ⟨hlen, hstop⟩

/-- **C09 (a failing range fails as the height query fails).** -/
theorem C09_range_error (r : Repo) (start : Int) (max : Nat) (e : ReadErr)
    (h : getHeaders r start max = .error e) : ∃ i : Nat, headerAt r (start + i) = .error e := by
  unfold getHeaders at h
  obtain ⟨i, _, he⟩ := getHeaders_go_err r _ start [] e h
  exact ⟨i, he⟩

/-- **C09 (maximum 0 means no maximum, as the code has it).** The loop tests `len(result) == maxCount` after
    each append, so `GetHeaders(start, 0)` runs to the tip; it still serves exactly the height queries
    (`C09_range_eq_height_queries` has no hypothesis on `max`). -/
theorem C09_range_max_zero (r : Repo) (start : Int) :
    getHeaders r start 0 = getHeaders.go r ((r.br r.longest).height - start + 1).toNat start [] := by
  unfold getHeaders
  simp

/-- **C09 (ranges and height queries agree in both directions).** If the height query serves every height
    `start … start+n−1` (`n ≤ max`), a range that returns at all returns at least those `n` headers. (A read
    error further up fails the whole call: `C09_range_error`.) -/
theorem C09_range_serves_what_heights_serve (r : Repo) (start : Int) (max n : Nat) (hm : 0 < max) (hn : n ≤ max) (l : List Hdr)
    (hg : getHeaders r start max = .ok l) (hs : ∀ i : Nat, i < n → ∃ x, headerAt r (start + i) = .ok x) :
    n ≤ l.length := by
  obtain ⟨_, hstop⟩ := C09_range_complete r start max hm l hg
  by_cases hlt : l.length < n
  · obtain ⟨e, he⟩ := hstop (by omega)
    obtain ⟨x, hx⟩ := hs l.length hlt
    rw [he] at hx
    cases hx
  · omega

/-- **C09 (the addressing the model uses is the addressing in the source).** Regenerated from /repo on every
    run: `header(height)`, `Hash(height)` and `GetHeaders` all read main file `height / headersPerFile` at offset
    `height − file·headersPerFile` of the CURRENT height (not of the start height), the range loop walks
    `startHeight … tipHeight` by one, and its only maximum test is `len(result) == maxCount` after an append. -/
theorem C09_range_addressing_in_source :
    Facts.getHeadersFileExpr = "height / headersPerFile" ∧
    Facts.getHeadersOffsetExpr = "height - (headersFile * headersPerFile)" ∧
    Facts.getHeadersLoop = "height := startHeight; height <= tipHeight; height++" ∧
    Facts.getHeadersStopTests = "len(result) == maxCount|len(result) == maxCount" ∧
    Facts.headerFileExpr = "height / headersPerFile" ∧ Facts.headerOffsetExpr = "height - (file * headersPerFile)" ∧
    Facts.hashFileExpr = "height / headersPerFile" ∧ Facts.hashOffsetExpr = "height - (file * headersPerFile)" := by
  decide

end BRV.Repo
