/-
C12 — A crash at any storage write during Clean or Save leaves a loadable, sound state.

The quantifier over crash points is discharged per history by complete enumeration: the `hdr`
harness records the real sequence of Write/Remove calls of every Clean/Save (`crashsave`,
`crashclean` ops), rebuilds the storage image after EVERY prefix, loads it in a fresh repository
and the model does the same from its own event list; both must agree and the monitor checks
load success, linkage from genesis and work against the last completed Save. What is proved here
is the shape of the write sequence the argument rests on — for every repository state — and its tie
to the source: branch files are written before the index, the index before the invalid list, the
main files before the branch files, Clean never writes the index; each event touches one key.

For the FIRST Save of a linear chain (one branch, any length, nothing saved before) the statement
itself is a theorem, `C12_first_save_crash_linear`: for EVERY prefix of the write sequence Load of
the storage as it then is succeeds without error or panic and reports either the genesis-only
chain (the index is not written yet — no Save was completed before, so nothing is lost) or
exactly the chain being saved, tip and header at every height.

For EVERY storage image — any history, any number of side branches, any index order, stale or unlinkable
branch files, any crash point — `C12_load_any_image_sound` proves the Load half of the property outright:
if every indexed branch file is consistent in itself (`StoreOK`: non-empty, internally linked, first entry
of the index a root file, main-chain files present up to the height the files reach), Load succeeds without
error or panic, and the best chain it reports is defined at every height from the lowest height the root
branch keeps in memory up to the tip, consists of header records read from the stored branch files, each
linked to the one below, and ends in the heaviest branch that could be linked (in particular at least as
heavy as the stored root branch).  `StoreOK` has an executable test (`storeOKb`, proved sound) which the
driver evaluates on every image the checks load, so the hypothesis is checked on the reachable images rather
than assumed.  What remains enumerated only (`_partial`): that every prefix of the write sequence of a later
Save / Clean of a forest leaves `StoreOK` images (preservation by consolidate + branch-file merging), and
the part of the best chain below the in-memory window, which Load serves from the main-chain files.
-/
import BRV.Proofs.RepoBasics
import BRV.Proofs.RepoCrash
import BRV.Proofs.LoadSound
import BRV.Proofs.RepoExample
import BRV.Proofs.LinearWorld

namespace BRV.Repo

def StoreEv.isBranchWrite : StoreEv → Bool
  | .branchWrite _ _ => true
  | _ => false

theorem branchSave_events (r : Repo) (b : Branch) (r' : Repo) (h : branchSave r b = .ok r') :
    ∃ e, e.isBranchWrite = true ∧ r'.events = r.events ++ [e] ∧ r'.store = r.store.apply e := by
  unfold branchSave at h
  split at h
  · simp only [Except.ok.injEq] at h
    rw [← h]
    exact ⟨_, rfl, rfl, rfl⟩
  · split at h
    · cases h
    · simp only [Except.ok.injEq] at h
      rw [← h]
      exact ⟨_, rfl, rfl, rfl⟩

theorem saveBranches_go_events (bs : List Nat) (r r' : Repo) (h : saveBranches.go bs r = .ok r') :
    ∃ es, (∀ e ∈ es, StoreEv.isBranchWrite e = true) ∧ r'.events = r.events ++ es ∧ es.length = bs.length := by
  induction bs generalizing r with
  | nil =>
    simp only [saveBranches.go, Except.ok.injEq] at h
    subst h
    exact ⟨[], by simp, by simp, rfl⟩
  | cons bi rest ih =>
    simp only [saveBranches.go] at h
    split at h
    · cases h
    · rename_i r1 hs
      obtain ⟨e, he, hev, _⟩ := branchSave_events _ _ _ hs
      obtain ⟨es, hes, hev2, hlen⟩ := ih _ h
      refine ⟨e :: es, ?_, ?_, by simp [hlen]⟩
      · intro x hx
        simp only [List.mem_cons] at hx
        rcases hx with rfl | hx
        · exact he
        · exact hes x hx
      · rw [hev2, hev]; simp

/-- **C12 (branch files before the index).** `saveBranches` writes one branch file per tracked
    branch and only then the index that names them: a crash in between leaves an index (the previous
    one) whose branch files all exist. -/
theorem C12_index_after_branch_files (r r' : Repo) (h : saveBranches r = .ok r') :
    ∃ es, (∀ e ∈ es, StoreEv.isBranchWrite e = true) ∧ es.length = r.branches.length ∧
      r'.events = r.events ++ es ++ [.indexWrite (r.branches.map (fun bi => (r.br bi).first.id))] := by
  unfold saveBranches at h
  split at h
  · cases h
  · rename_i r1 hg
    simp only [Except.ok.injEq] at h
    obtain ⟨es, hes, hev, hlen⟩ := saveBranches_go_events _ _ _ hg
    refine ⟨es, hes, hlen, ?_⟩
    rw [← h]
    simp only [Repo.emit, hev]

/-- **C12 (the invalid list is the last write of Save and of Clean).** -/
theorem C12_invalid_last (r : Repo) : (saveInvalid r).events = r.events ++ [.invalidWrite r.invalid] := rfl

/-- **C12 (each write is one key).** Applying an event changes only the file it names. -/
theorem C12_event_locality (s : Store) :
    (∀ l, (s.apply (.indexWrite l)).main = s.main ∧ (s.apply (.indexWrite l)).branches = s.branches ∧ (s.apply (.indexWrite l)).invalid = s.invalid) ∧
    (∀ l, (s.apply (.invalidWrite l)).main = s.main ∧ (s.apply (.invalidWrite l)).branches = s.branches ∧ (s.apply (.invalidWrite l)).index = s.index) ∧
    (∀ k bf, (s.apply (.branchWrite k bf)).main = s.main ∧ (s.apply (.branchWrite k bf)).index = s.index ∧ (s.apply (.branchWrite k bf)).invalid = s.invalid) ∧
    (∀ f recs, (s.apply (.mainWrite f recs)).branches = s.branches ∧ (s.apply (.mainWrite f recs)).index = s.index ∧ (s.apply (.mainWrite f recs)).invalid = s.invalid) := by
  refine ⟨?_, ?_, ?_, ?_⟩ <;> intros <;> exact ⟨rfl, rfl, rfl⟩

/-- **C12 (the order of the stages in the source).** Save: consolidate, main files, branch files +
    index, invalid list; Clean: consolidate, main files, prune (branch files), invalid list — never
    the index; inside saveBranches the index write follows the branch saves. -/
theorem C12_write_order_in_source :
    Facts.callOrder_Save = ["consolidate", "saveMainBranch", "saveBranches", "saveInvalidHashes"] ∧
    Facts.callOrder_clean = ["consolidate", "saveMainBranch", "prune", "saveInvalidHashes"] ∧
    Facts.callOrder_saveBranches = ["Write", "Save", "Write", "Write"] := by decide

/-! ### non-vacuity -/

def exR12 : Repo :=
  { arena := [{ parent := none, parentHeight := -1, first := { id := 0, prev := 99, bits := 0x1d00ffff, time := 1 },
                offset := 1, headers := [{ hdr := { id := 0, prev := 99, bits := 0x1d00ffff, time := 1 }, work := 4295032833 }],
                hmap := [(0, 0)] }],
    branches := [0], longest := 0, heights := [(0, 0)] }

example : (match saveBranches exR12 with | .ok r' => r'.events.length | .error _ => 0) = 2 := by rfl

/-- **C12 (first Save of a linear chain, every crash point).** -/
theorem C12_first_save_crash_linear (r : Repo) (hl : Linear r) (depth : Int) (hd : 0 ≤ depth) (g : Hdr) (w : Nat)
    (hg : Work.blockWork g.bits = some w) :
    ∃ (rs : Repo) (E : List StoreEv), save r = (rs, none) ∧ rs.events = r.events ++ E ∧
      ∀ n, n ≤ E.length →
        ∃ rl, load { r with store := (E.take n).foldl Store.apply r.store } depth g = (rl, none) ∧
          ((tipHeight rl = 0 ∧ tipId rl = g.id ∧ tipWork rl = w) ∨
           (tipHeight rl = tipHeight r ∧ tipId rl = tipId r ∧ tipWork rl = tipWork r ∧
            (∀ k : Int, 0 ≤ k → headerAt rl k = headerAt r k) ∧ (∀ id, hashHeight rl id = hashHeight r id))) :=
  first_save_crash_linear r hl depth hd g w hg

/-- the write sequence of that Save: main-file writes and removals, then the branch file, the index,
    the invalid list; the resulting store is the replay of the sequence. -/
theorem C12_first_save_sequence (r : Repo) (hl : Linear r) :
    ∃ (rs : Repo) (M : List StoreEv), save r = (rs, none) ∧ (∀ e ∈ M, e.isMain = true) ∧
      rs.events = r.events ++ (M ++ saveTail r) ∧ rs.store = (M ++ saveTail r).foldl Store.apply r.store :=
  save_linear_events r hl

/-- **C12, the Load half, for every storage image.** Whatever history, crash point or corruption produced
    the image: if it passes `StoreOK`, Load succeeds and its best chain is a linked chain of stored headers
    from the lowest height kept in memory to the tip, ending in the heaviest linkable branch. -/
theorem C12_load_any_image_sound (r0 : Repo) (depth : Int) (hd : 0 ≤ depth) (g : Hdr) (hs : StoreOK r0.store) :
    ∃ r, load r0 depth g = (r, none) ∧
      (∃ lo : Int, 0 ≤ lo ∧
        (∃ (ri : Nat) (rb : Branch), r.arena[ri]? = some rb ∧ rb.parentHeight = -1 ∧ lo = rb.prunedLowest) ∧
        (∀ x, lo ≤ x → x ≤ tipHeight r → ∃ d, r.at r.longest x = some d ∧ FromStore r0.store d) ∧
        (∀ x d d', r.at r.longest x = some d → r.at r.longest (x - 1) = some d' → d.hdr.prev = d'.hdr.id)) ∧
      (∃ wl, lastWork r.arena r.longest = some wl ∧
        ∀ b ∈ r.branches, ∃ w, lastWork r.arena b = some w ∧ w ≤ wl) ∧
      (∃ bi ∈ r.branches, (r.br bi).parentHeight = -1) := by
  obtain ⟨r, hl, hok⟩ := load_sound r0 depth hd g hs
  exact ⟨r, hl, loaded_best_chain _ r hok, hok.heaviest, hok.rooted⟩

/-- the executable test of the hypothesis is sound. -/
theorem C12_image_test_sound (s : Store) (h : storeOKb s = true) : StoreOK s := storeOKb_sound s h

/-! non-vacuity: a forest with a side branch, saved; every crash prefix of that Save is an image the
    theorem applies to, and Load of the complete image reports the heavier branch. -/
def exFork : Repo :=
  submitAll genesisRepo [({ id := 1, prev := 0, bits := 0x1d00ffff, time := 2 }, true),
    ({ id := 2, prev := 1, bits := 0x1d00ffff, time := 3 }, true), ({ id := 3, prev := 2, bits := 0x1d00ffff, time := 4 }, true),
    ({ id := 12, prev := 1, bits := 0x1d00ffff, time := 3 }, true), ({ id := 4, prev := 3, bits := 0x1d00ffff, time := 5 }, true)]

example : exFork.branches.length = 2 ∧ (save exFork).2.isNone = true ∧
    storeOKb (save exFork).1.store = true ∧
    tipId (load (save exFork).1 10 { id := 0, prev := 99, bits := 0x1d00ffff, time := 1 }).1 = 4 := by decide

/-- after that Save the side branch overtakes (a reorganisation); the second Save consolidates and rewrites
    the files: EVERY prefix of its write sequence is an image that passes the test, and Load of each reports
    the old tip (4) or the new one (16). -/
def exFork2 : Repo :=
  submitAll { (save exFork).1 with events := [] } [({ id := 5, prev := 4, bits := 0x1d00ffff, time := 6 }, true),
    ({ id := 13, prev := 12, bits := 0x1d00ffff, time := 4 }, true), ({ id := 14, prev := 13, bits := 0x1d00ffff, time := 5 }, true),
    ({ id := 15, prev := 14, bits := 0x1d00ffff, time := 6 }, true), ({ id := 16, prev := 15, bits := 0x1d00ffff, time := 7 }, true)]

example : tipId exFork2 = 16 ∧ exFork2.longest = 1 ∧ (save exFork2).2.isNone = true ∧ (save exFork2).1.events.length = 6 ∧
    (List.range 7).all (fun n =>
      storeOKb (((save exFork2).1.events.take n).foldl Store.apply exFork2.store)) = true ∧
    (List.range 7).map (fun n =>
      tipId (load { exFork2 with store := ((save exFork2).1.events.take n).foldl Store.apply exFork2.store } 10
        { id := 0, prev := 99, bits := 0x1d00ffff, time := 1 }).1) = [4, 4, 4, 16, 16, 16, 16] := by decide


/-- **C12 in the linear world, every Save.** At any point of any history of tip-extending submissions,
    Cleans, Saves and Loads (any length, any number of earlier generations): for EVERY prefix of the write
    sequence of a Save, Load of the storage as it then is succeeds without error or panic and reports
    the genesis-only chain (only when no Save ever completed: there is no index), or exactly the chain
    as the last completed Save/Clean stored it (`c.take m`), or exactly the chain being saved (`c`) — tip
    height, hash and work, and the header at every height. Both chains are prefixes of the accepted chain,
    the second extends the first. -/
theorem C12_linear_crash_any_save (r0 : Repo) (c0 : List HData) (k0 m0 : Nat) (h0 : PLin r0 c0 k0 m0) (ops : List LinOp)
    (hh : LinHist r0 ops) (depth : Int) (hd : 0 ≤ depth) (g : Hdr) (w : Nat) (hg : Work.blockWork g.bits = some w) :
    ∃ (c : List HData) (m : Nat) (rs : Repo) (E : List StoreEv), m ≤ c.length ∧
      save (runOps r0 ops) = (rs, none) ∧ rs.events = (runOps r0 ops).events ++ E ∧
      ∀ n, ∃ rl, load { runOps r0 ops with store := (E.take n).foldl Store.apply (runOps r0 ops).store } depth g = (rl, none) ∧
        CrashOutcome rl g w (c.take m) c (runOps r0 ops).store.index.isSome := by
  obtain ⟨c, k, m, hp⟩ := plin_history ops r0 c0 k0 m0 h0 hh
  obtain ⟨rs, E, hs, hev, hall⟩ := save_crash_lin hp depth hd g w hg
  exact ⟨c, m, rs, E, hp.mle, hs, hev, hall⟩

/-- **C12 in the linear world, every Clean** (the automatic one every 10000 heights is this Clean). -/
theorem C12_linear_crash_any_clean (r0 : Repo) (c0 : List HData) (k0 m0 : Nat) (h0 : PLin r0 c0 k0 m0) (ops : List LinOp)
    (hh : LinHist r0 ops) (cdepth : Int) (hcd : 0 ≤ cdepth) (depth : Int) (hd : 0 ≤ depth) (g : Hdr) (w : Nat)
    (hg : Work.blockWork g.bits = some w) :
    ∃ (c : List HData) (m : Nat) (r' : Repo) (E : List StoreEv), m ≤ c.length ∧
      cleanWith (runOps r0 ops) cdepth = (r', none) ∧ r'.events = (runOps r0 ops).events ++ E ∧
      ∀ n, ∃ rl, load { runOps r0 ops with store := (E.take n).foldl Store.apply (runOps r0 ops).store } depth g = (rl, none) ∧
        CrashOutcome rl g w (c.take m) c (runOps r0 ops).store.index.isSome := by
  obtain ⟨c, k, m, hp⟩ := plin_history ops r0 c0 k0 m0 h0 hh
  obtain ⟨r', E, hcl, hev, hall⟩ := clean_crash_lin hp cdepth hcd depth hd g w hg
  exact ⟨c, m, r', E, hp.mle, hcl, hev, hall⟩

end BRV.Repo
