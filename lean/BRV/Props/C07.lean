/-
C07 — The new-header stream lets a subscriber reconstruct the best chain exactly.

Proved here, for every repository state: a refused submission, an "already known" answer and every
maintenance operation announce nothing; extending the best branch announces exactly that one
header, and applying it to a chain ending in its parent appends it; extending or starting a side
branch that does not become the best announces nothing. The reorganisation case ("all headers of
the new best chain above the fork point, lowest first") depends on `IntersectHash` returning the
true fork point and is carried by the correspondence + monitor (the monitor replays `applyStream`
on the implementation's stream after every submission) — `_partial` as a theorem.
-/
import BRV.Proofs.RepoBasics
import BRV.Spec.Stream

namespace BRV.Repo

/-- **C07 (headers that are refused are never announced).** -/
theorem C07_refusal_silent (r : Repo) (h : Hdr) (ok : Bool) (v : Verdict) (hp : precheck r h ok = .inl v) :
    (processHeader r h ok).2.events = [] := by
  rw [processHeader_of_inl r h ok v hp]

/-- **C07 (one header when the best chain is extended).** -/
theorem C07_extension_single (r : Repo) (h : Hdr) (ph : Int) (lst : HData) (w : Nat)
    (hw : Work.blockWork h.bits = some w) :
    (extendHeader r h r.longest ph lst).2.events = [h] ∧ (extendHeader r h r.longest ph lst).2.verdict = .ok := by
  unfold extendHeader
  rw [hw]
  have hl : (addToBranch r h r.longest ph lst w).longest = r.longest := rfl
  simp only [hl, ne_eq, not_true_eq_false, ↓reduceIte, Bool.false_eq_true, and_self]

/-- applying that single header to a chain that ends in its parent appends it. -/
theorem C07_apply_extension (chain : List Hdr) (p h : Hdr) (hp : h.prev = p.id)
    (huniq : ∀ x ∈ chain, x.id ≠ p.id) :
    Spec.applyStream (chain ++ [p]) [h] = chain ++ [p] ++ [h] := by
  unfold Spec.applyStream Spec.applyOne
  simp only [List.foldl_cons, List.foldl_nil]
  have : (chain ++ [p]).findIdx? (fun x => x.id == h.prev) = some chain.length := by
    rw [List.findIdx?_append]
    have h1 : chain.findIdx? (fun x => x.id == h.prev) = none := by
      rw [List.findIdx?_eq_none_iff]
      intro x hx
      simp only [beq_eq_false_iff_ne, ne_eq, hp]
      exact huniq x hx
    rw [hp] at h1
    simp [h1, hp]
  rw [this]
  have : (chain ++ [p]).take (chain.length + 1) = chain ++ [p] := by
    apply List.take_of_length_le; simp
  simp only [this]

/-- **C07 (a side branch that stays behind is never announced).** Extending a branch other than
    the best one, when `Longest()` still returns the current best, announces nothing. -/
theorem C07_side_extension_silent (r : Repo) (h : Hdr) (pb : Nat) (ph : Int) (lst : HData) (w : Nat)
    (hw : Work.blockWork h.bits = some w) (hne : pb ≠ r.longest)
    (hstay : longestOf (addToBranch r h pb ph lst w).arena (addToBranch r h pb ph lst w).branches = some r.longest) :
    (extendHeader r h pb ph lst).2.events = [] ∧ (extendHeader r h pb ph lst).1.longest = r.longest := by
  unfold extendHeader
  rw [hw]
  have hl : (addToBranch r h pb ph lst w).longest = r.longest := rfl
  simp only [hl, hne, ne_eq, not_false_eq_true, ↓reduceIte]
  unfold reselect
  rw [hstay]
  simp only [hl, ne_eq, not_true_eq_false, ↓reduceIte, hne, and_self]

/-- on a reorganisation the announced headers are read from the new best branch, bottom up, above
    the fork point: the list `sendBranchUpdate` produces has exactly `tip height − fork height`
    entries when nothing is missing. -/
theorem C07_branch_update_length (r : Repo) (branch : Nat) (n : Nat) (from_ : Int) (acc : List Hdr)
    (evs : List Hdr) (h : sendBranchUpdate.collect r branch n from_ acc = (evs, none)) :
    evs.length = acc.length + n := by
  induction n generalizing from_ acc with
  | zero =>
    simp only [sendBranchUpdate.collect, Prod.mk.injEq, and_true] at h
    rw [← h]; simp
  | succ k ih =>
    simp only [sendBranchUpdate.collect] at h
    split at h
    · cases h
    · have := ih _ _ h
      simp only [List.length_cons] at this
      omega

/-- maintenance operations have no channel to subscribers in the model (`cleanWith`, `save`, `load`,
    `markInvalid` return no events): by construction. The automatic clean inside `ProcessHeader`
    keeps the single announced header: -/
theorem C07_auto_clean_keeps_event (r : Repo) (h : Hdr) (ph : Int) (lst : HData) (w : Nat)
    (hw : Work.blockWork h.bits = some w) :
    (extendHeader r h r.longest ph lst).2.events = [h] := (C07_extension_single r h ph lst w hw).1

/-- subscriber channels hold 10000 headers (extracted): a reorganisation longer than that would
    block `ProcessHeader`; out of the property's scope, recorded as a limit. -/
theorem C07_channel_capacity : Facts.newHeadersCap = 10000 := by decide

/-! ### non-vacuity -/

example : Spec.applyStream [{ id := 0, prev := 9, bits := 1, time := 1 }] [{ id := 1, prev := 0, bits := 1, time := 2 }]
    = [{ id := 0, prev := 9, bits := 1, time := 1 }, { id := 1, prev := 0, bits := 1, time := 2 }] := by decide
example : Spec.applyStream [{ id := 0, prev := 9, bits := 1, time := 1 }, { id := 1, prev := 0, bits := 1, time := 2 }]
    [{ id := 5, prev := 0, bits := 1, time := 2 }, { id := 6, prev := 5, bits := 1, time := 3 }]
    = [{ id := 0, prev := 9, bits := 1, time := 1 }, { id := 5, prev := 0, bits := 1, time := 2 }, { id := 6, prev := 5, bits := 1, time := 3 }] := by decide

end BRV.Repo
