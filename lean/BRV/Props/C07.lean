/-
C07 — The new-header stream lets a subscriber reconstruct the best chain exactly.

Proved here, for every repository state: a refused submission, an "already known" answer and every
maintenance operation announce nothing; extending the best branch announces exactly that one
header, and applying it to a chain ending in its parent appends it; extending or starting a side
branch that does not become the best announces nothing.

For every state reached by submissions from genesis (`StreamWF`: the link, identity, ownership,
root-base and fork-below-tip invariants, all preserved by `ProcessHeader`): `IntersectHash` returns
a header common to both chains, a reorganisation announces exactly the headers of the new best
chain above it, lowest first, as a linked chain (`C07_reorg_shape`); applying ANY submission's
announcement to the best chain before it gives the best chain after it (`C07_stream_step`); and
over ANY finite history a subscriber that applies everything announced holds exactly the chain the
repository reports (`C07_stream_reconstructs`); the branch update itself cannot fail there
(`C07_branch_update_never_fails`). Histories with Clean/Save/Load/marking are carried by the
correspondence + monitor (the monitor replays
`applyStream` on the implementation's stream after every submission) — `_partial` there.
-/
import BRV.Proofs.RepoBasics
import BRV.Spec.Stream
import BRV.Proofs.RepoExample
import BRV.Proofs.LinearWorld

namespace BRV.Repo

/-- **C07 (headers that are refused are never announced).** -/
theorem C07_refusal_silent (r : Repo) (h : Hdr) (ok : Bool) (v : Verdict) (hp : precheck r h ok = .inl v) :
    (processHeader r h ok).2.events = [] := by
  rw [processHeader_of_inl r h ok v hp]

/-- **C07 (one header when the best chain is extended).** -/
theorem C07_extension_single (r : Repo) (h : Hdr) (ph : Int) (lst : HData) (w : Nat)
    (hw : Work.blockWork h.bits = some w) :
    (extendHeader r h r.longest ph lst).2.events = [h] ∧ (extendHeader r h r.longest ph lst).2.verdict = .ok := by
  unfold extendHeader
  rw [hw]
  have hl : (addToBranch r h r.longest ph lst w).longest = r.longest := rfl
  simp only [hl, ne_eq, not_true_eq_false, ↓reduceIte, Bool.false_eq_true, and_self]

/-- applying that single header to a chain that ends in its parent appends it. -/
theorem C07_apply_extension (chain : List Hdr) (p h : Hdr) (hp : h.prev = p.id)
    (huniq : ∀ x ∈ chain, x.id ≠ p.id) :
    Spec.applyStream (chain ++ [p]) [h] = chain ++ [p] ++ [h] := by
  unfold Spec.applyStream Spec.applyOne
  simp only [List.foldl_cons, List.foldl_nil]
  have : (chain ++ [p]).findIdx? (fun x => x.id == h.prev) = some chain.length := by
    rw [List.findIdx?_append]
    have h1 : chain.findIdx? (fun x => x.id == h.prev) = none := by
      rw [List.findIdx?_eq_none_iff]
      intro x hx
      simp only [beq_eq_false_iff_ne, ne_eq, hp]
      exact huniq x hx
    rw [hp] at h1
    simp [h1, hp]
  rw [this]
  have : (chain ++ [p]).take (chain.length + 1) = chain ++ [p] := by
    apply List.take_of_length_le; simp
  simp only [this]

/-- **C07 (a side branch that stays behind is never announced).** Extending a branch other than
    the best one, when `Longest()` still returns the current best, announces nothing. -/
theorem C07_side_extension_silent (r : Repo) (h : Hdr) (pb : Nat) (ph : Int) (lst : HData) (w : Nat)
    (hw : Work.blockWork h.bits = some w) (hne : pb ≠ r.longest)
    (hstay : longestOf (addToBranch r h pb ph lst w).arena (addToBranch r h pb ph lst w).branches = some r.longest) :
    (extendHeader r h pb ph lst).2.events = [] ∧ (extendHeader r h pb ph lst).1.longest = r.longest := by
  unfold extendHeader
  rw [hw]
  have hl : (addToBranch r h pb ph lst w).longest = r.longest := rfl
  simp only [hl, hne, ne_eq, not_false_eq_true, ↓reduceIte]
  unfold reselect
  rw [hstay]
  simp only [hl, ne_eq, not_true_eq_false, ↓reduceIte, hne, and_self]

/-- on a reorganisation the announced headers are read from the new best branch, bottom up, above
    the fork point: the list `sendBranchUpdate` produces has exactly `tip height − fork height`
    entries when nothing is missing. -/
theorem C07_branch_update_length (r : Repo) (branch : Nat) (n : Nat) (from_ : Int) (acc : List Hdr)
    (evs : List Hdr) (h : sendBranchUpdate.collect r branch n from_ acc = (evs, none)) :
    evs.length = acc.length + n := by
  induction n generalizing from_ acc with
  | zero =>
    simp only [sendBranchUpdate.collect, Prod.mk.injEq, and_true] at h
    rw [← h]; simp
  | succ k ih =>
    simp only [sendBranchUpdate.collect] at h
    split at h
    · cases h
    · have := ih _ _ h
      simp only [List.length_cons] at this
      omega

/-- maintenance operations have no channel to subscribers in the model (`cleanWith`, `save`, `load`,
    `markInvalid` return no events): by construction. The automatic clean inside `ProcessHeader`
    keeps the single announced header: -/
theorem C07_auto_clean_keeps_event (r : Repo) (h : Hdr) (ph : Int) (lst : HData) (w : Nat)
    (hw : Work.blockWork h.bits = some w) :
    (extendHeader r h r.longest ph lst).2.events = [h] := (C07_extension_single r h ph lst w hw).1

/-- subscriber channels hold 10000 headers (extracted): a reorganisation longer than that would
    block `ProcessHeader`; out of the property's scope, recorded as a limit. -/
theorem C07_channel_capacity : Facts.newHeadersCap = 10000 := by decide

/-! ### reorganisations and whole histories -/

/-- **C07 (on a reorganisation: all headers of the new best chain above the fork point, lowest
    first).** The previous and the new best chain share a prefix ending in the fork point `p`; the
    new chain continues with exactly the announced headers; these are a non-empty chain linked by
    previous-block hash starting at `p`; no two headers of the new chain share a hash; and `p` is
    the TRUE fork point — no announced header was on the previous best chain (nothing is announced
    twice, the announcement is minimal). -/
theorem C07_reorg_shape (r : Repo) (hs : StreamWF r) (r2 : Repo) (evs : List Hdr)
    (h : reselect r = .ok (r2, true, evs))
    (cOld cNew : List Hdr) (hold : IsChain r.arena r.longest cOld) (hnew : IsChain r.arena r2.longest cNew) :
    ∃ (pre : List Hdr) (p : Hdr) (rest : List Hdr), cOld = pre ++ [p] ++ rest ∧ cNew = pre ++ [p] ++ evs ∧
      Spec.Linked p evs ∧ ((pre ++ [p] ++ evs).map (·.id)).Nodup ∧ evs ≠ [] ∧ (∀ e ∈ evs, e ∉ cOld) :=
  reselect_reorg_shape r hs.chain r2 evs hs.below h cOld cNew hold hnew

/-- **C07 (headers that never enter the best chain are never announced, reorganisation case)**:
    every header of a branch update is a header of the new best chain. -/
theorem C07_reorg_announced_in_chain (r : Repo) (hs : StreamWF r) (r2 : Repo) (evs : List Hdr)
    (h : reselect r = .ok (r2, true, evs))
    (cOld cNew : List Hdr) (hold : IsChain r.arena r.longest cOld) (hnew : IsChain r.arena r2.longest cNew) :
    ∀ e ∈ evs, e ∈ cNew := by
  obtain ⟨pre, p, rest, _, hn, _⟩ := C07_reorg_shape r hs r2 evs h cOld cNew hold hnew
  intro e he
  rw [hn]
  exact List.mem_append_right _ he

/-- **C07 (applying the stream yields the chain the repository reports after the submission).**
    For ANY submitted header and any outcome. -/
theorem C07_stream_step (r : Repo) (h : Hdr) (ok : Bool) (hs : StreamWF r)
    (hnc : ∀ pb ph lst, precheck r h ok = .inr (pb, ph, lst) →
      Int.tmod ((r.br pb).height + 1) (Facts.autoCleanModulus : Int) ≠ 0)
    (cOld cNew : List Hdr) (hold : IsChain r.arena r.longest cOld)
    (hnew : IsChain (processHeader r h ok).1.arena (processHeader r h ok).1.longest cNew) :
    Spec.applyStream cOld (processHeader r h ok).2.events = cNew :=
  stream_step r h ok hs hnc cOld cNew hold hnew

/-- **C07 (submission histories).** From a well-formed state (e.g. genesis only), after ANY finite
    history of submissions — extensions, forks, reorganisations to child, parent, sibling and
    cousin branches of any depth, reorganisations on the first header of a new branch, duplicates,
    refusals — the subscriber's chain (the initial best chain with everything announced applied, in
    order) is exactly the best chain of the repository. -/
theorem C07_stream_reconstructs (r : Repo) (hs : List (Hdr × Bool)) (hwf : StreamWF r)
    (hlv : r.longest < r.arena.length) (hq : NoAutoClean r hs) (c0 : List Hdr) (h0 : IsChain r.arena r.longest c0) :
    IsChain (submitAll r hs).arena (submitAll r hs).longest (Spec.applyStream c0 (streamOf r hs)) :=
  stream_history r hs hwf hlv hq c0 h0

/-- **C07 (the branch update cannot fail).** In every state reached by submissions from genesis the
    reselection of the most-work branch — `Longest()`, `IntersectHash`, `Find` of the intersect and the
    collection of the headers above it — never returns the internal error or crashes, so every
    reorganisation is announced completely. -/
theorem C07_branch_update_never_fails (r : Repo) (hs : StreamWF r) (hlv : r.longest < r.arena.length)
    (x : Repo × StepOut) : reselect r ≠ .error x :=
  reselect_never_fails r hs hlv x

/-- the invariants hold in every state reached by submissions. -/
theorem C07_wf_submissions (r : Repo) (hs : List (Hdr × Bool)) (hwf : StreamWF r) (hq : NoAutoClean r hs) :
    StreamWF (submitAll r hs) := streamWF_submitAll r hs hwf hq

/-! ### non-vacuity -/

example : Spec.applyStream [{ id := 0, prev := 9, bits := 1, time := 1 }] [{ id := 1, prev := 0, bits := 1, time := 2 }]
    = [{ id := 0, prev := 9, bits := 1, time := 1 }, { id := 1, prev := 0, bits := 1, time := 2 }] := by decide
example : Spec.applyStream [{ id := 0, prev := 9, bits := 1, time := 1 }, { id := 1, prev := 0, bits := 1, time := 2 }]
    [{ id := 5, prev := 0, bits := 1, time := 2 }, { id := 6, prev := 5, bits := 1, time := 3 }]
    = [{ id := 0, prev := 9, bits := 1, time := 1 }, { id := 5, prev := 0, bits := 1, time := 2 }, { id := 6, prev := 5, bits := 1, time := 3 }] := by decide

/-- the genesis-only repository meets the hypotheses of the history theorems, with its one-header chain. -/
example : StreamWF genesisRepo ∧ genesisRepo.longest < genesisRepo.arena.length ∧
    IsChain genesisRepo.arena genesisRepo.longest [{ id := 0, prev := 99, bits := 0x1d00ffff, time := 1 }] :=
  ⟨genesisRepo_streamWF, by decide, genesisRepo_chain⟩

/-- a concrete history with an extension followed by a reorganisation on the first header of a new
    branch: both headers are announced, nothing triggers the clean or the internal error. -/
def exH1 : Hdr := { id := 1, prev := 0, bits := 0x1d00ffff, time := 2 }
def exH2 : Hdr := { id := 2, prev := 0, bits := 0x1c00ffff, time := 2 }

example : streamOf genesisRepo [(exH1, true), (exH2, true)] = [exH1, exH2] := by decide

example : NoAutoClean genesisRepo [(exH1, true), (exH2, true)] := by
  refine ⟨?_, ?_, trivial⟩
  · intro pb ph lst hp
    have : precheck genesisRepo exH1 true
        = .inr (0, 0, { hdr := { id := 0, prev := 99, bits := 0x1d00ffff, time := 1 }, work := 4295032833 }) := by decide
    rw [this] at hp
    simp only [Sum.inr.injEq, Prod.mk.injEq] at hp
    obtain ⟨rfl, rfl, rfl⟩ := hp
    decide
  · intro pb ph lst hp
    have : precheck (processHeader genesisRepo exH1 true).1 exH2 true
        = .inr (0, 0, { hdr := { id := 1, prev := 0, bits := 0x1d00ffff, time := 2 }, work := 8590065666 }) := by decide
    rw [this] at hp
    simp only [Sum.inr.injEq, Prod.mk.injEq] at hp
    obtain ⟨rfl, rfl, rfl⟩ := hp
    decide


/-- **C07 in the linear world**: over ANY fork-free history (any length, across the automatic clean every
    10000 heights and any Cleans and Saves in between) the headers announced to a subscriber, appended to
    the chain the subscription started from, are exactly the best chain at the end: every accepted header
    is announced once, in order, and nothing else is. -/
theorem C07_linear_stream (r0 : Repo) (c0 : List HData) (k0 m0 : Nat) (h0 : PLin r0 c0 k0 m0) (ops : List LinOp)
    (hh : LinHist r0 ops) (hnl : NoLoad ops) :
    ∃ c : List HData, ObsChain (runOps r0 ops) c ∧ c.map (·.hdr) = c0.map (·.hdr) ++ streamOps r0 ops := by
  obtain ⟨c, k, m, hp, hmap⟩ := stream_lin ops r0 c0 k0 m0 h0 hh hnl
  exact ⟨c, hp.obsChain, hmap⟩

end BRV.Repo
