/-
C18 — A merkle proof verifies only if it ties the transaction to a known header.

Theorems about `verifyMerkleProof` (Model/ProofVerify.lean: locate the header, index range check
— the repository fix —, then the dependency's `MerkleProof.Verify` modelled over the free hash
algebra), for every repository state and every proof.
-/
import BRV.Proofs.ProofTamper
import BRV.Proofs.RepoBasics

namespace BRV.Repo

open BRV.Merkle (H)

/-- **C18 (sound).** A verified proof is about a header the repository located — the one supplied
    in the proof, checked with `CheckHeader`, or the one `GetHeader` returned for the block hash —,
    its index lies inside the tree, and its path recomputes exactly the merkle root that header
    commits to; the reported height and most-work-chain flag are that lookup's (C09). -/
theorem C18_sound (r : Repo) (mrOf : Hdr → Option H) (p : MProof) (h : Int) (f : Bool)
    (hv : verifyMerkleProof r mrOf p = .ok (h, f)) :
    ∃ hd root, locate r p = .ok (hd, h, f) ∧ 0 ≤ p.index ∧ p.index < 2 ^ depthOf p ∧
      ({ p.core with index := some p.index.toNat } : Merkle.Proof).calculateRoot = some root ∧ mrOf hd = some root := by
  unfold verifyMerkleProof at hv
  cases hl : locate r p with
  | error e => rw [hl] at hv; cases hv
  | ok x =>
    obtain ⟨hd, h', f'⟩ := x
    rw [hl] at hv
    simp only at hv
    by_cases hr : p.index < 0 ∨ p.index ≥ 2 ^ depthOf p
    · simp only [hr, ↓reduceIte] at hv; cases hv
    · simp only [hr, ↓reduceIte] at hv
      simp only [not_or, Int.not_lt, ge_iff_le, Int.not_le] at hr
      unfold Merkle.Proof.verify at hv
      cases hc : ({ p.core with index := some p.index.toNat } : Merkle.Proof).calculateRoot with
      | none => rw [hc] at hv; cases hv
      | some root =>
        rw [hc] at hv
        simp only at hv
        by_cases hm : mrOf hd = some root
        · simp only [hm, ↓reduceIte, Except.ok.injEq, Prod.mk.injEq] at hv
          obtain ⟨rfl, rfl⟩ := hv
          exact ⟨hd, root, rfl, hr.1, hr.2, rfl, hm⟩
        · simp only [hm, ↓reduceIte] at hv; cases hv

/-- the header is the one in the proof when one is supplied, and it must be known. -/
theorem C18_located_by_header (r : Repo) (p : MProof) (hd hd' : Hdr) (h : Int) (f : Bool)
    (hp : p.header = some hd) (hl : locate r p = .ok (hd', h, f)) :
    hd' = hd ∧ checkHeader r hd.id = .ok (h, f) := by
  unfold locate at hl
  rw [hp] at hl
  simp only at hl
  cases hc : checkHeader r hd.id with
  | error e => rw [hc] at hl; cases hl
  | ok x =>
    obtain ⟨h', f'⟩ := x
    rw [hc] at hl
    simp only [Except.ok.injEq, Prod.mk.injEq] at hl
    obtain ⟨rfl, rfl, rfl⟩ := hl
    exact ⟨rfl, rfl⟩

/-- with a block hash only, the header is the one the repository holds for that hash. -/
theorem C18_located_by_hash (r : Repo) (p : MProof) (b : Nat) (hd' : Hdr) (h : Int) (f : Bool)
    (hp : p.header = none) (hb : p.blockHash = some b) (hl : locate r p = .ok (hd', h, f)) :
    getHeader r b = .ok (hd', h, f) := by
  unfold locate at hl
  rw [hp, hb] at hl
  simp only at hl
  cases hc : getHeader r b with
  | error e => rw [hc] at hl; cases hl
  | ok x => rw [hc] at hl; simp only [Except.ok.injEq] at hl; rw [hl]

/-- **C18 (a header/hash the repository does not know makes it fail).** -/
theorem C18_unknown_header_fails (r : Repo) (mrOf : Hdr → Option H) (p : MProof) (hd : Hdr)
    (hp : p.header = some hd) (h1 : r.branchesFind hd.id = none) (h2 : r.heights.get? hd.id = none) :
    verifyMerkleProof r mrOf p = .error .unknown := by
  unfold verifyMerkleProof locate
  rw [hp]
  simp only [(C09_unknown' r hd.id h1 h2)]
  rfl
where
  C09_unknown' (r : Repo) (id : Nat) (h1 : r.branchesFind id = none) (h2 : r.heights.get? id = none) :
      checkHeader r id = .error .unknown := by
    unfold checkHeader; simp [h1, h2]

theorem C18_unknown_hash_fails (r : Repo) (mrOf : Hdr → Option H) (p : MProof) (b : Nat)
    (hp : p.header = none) (hb : p.blockHash = some b) (h1 : r.branchesFind b = none) (h2 : r.heights.get? b = none) :
    verifyMerkleProof r mrOf p = .error .unknown := by
  have : getHeader r b = .error .unknown := by unfold getHeader; simp [h1, h2]
  unfold verifyMerkleProof locate
  rw [hp, hb]
  simp only [this]
  rfl

theorem C18_no_block_fails (r : Repo) (mrOf : Hdr → Option H) (p : MProof)
    (hp : p.header = none) (hb : p.blockHash = none) : verifyMerkleProof r mrOf p = .error .notVerifiable := by
  unfold verifyMerkleProof locate
  rw [hp, hb]

/-- **C18 (the index must lie inside the tree the path describes).** -/
theorem C18_index_in_range (r : Repo) (mrOf : Hdr → Option H) (p : MProof) (h : Int) (f : Bool)
    (hv : verifyMerkleProof r mrOf p = .ok (h, f)) : 0 ≤ p.index ∧ p.index < 2 ^ depthOf p := by
  obtain ⟨_, _, _, h1, h2, _, _⟩ := C18_sound r mrOf p h f hv
  exact ⟨h1, h2⟩

/-- **C18 (altering the txid or the index makes it fail).** Two proofs with the same path, the
    same duplicate markers and about the same header that BOTH verify have the same transaction id
    and indices that agree on every bit the climb uses; when the path accounts for all levels
    (`nLevels = depth`, as in every proof the tree emits) the indices are equal. So changing the
    txid, or the index, of a valid proof yields a proof that does not verify. -/
theorem C18_txid_and_index_determined (r : Repo) (mrOf : Hdr → Option H) (p p' : MProof)
    (h h' : Int) (f f' : Bool)
    (hpath : p'.core.path = p.core.path) (hdups : p'.core.dups = p.core.dups)
    (hhdr : p'.header = p.header) (hbh : p'.blockHash = p.blockHash)
    (hv : verifyMerkleProof r mrOf p = .ok (h, f)) (hv' : verifyMerkleProof r mrOf p' = .ok (h', f')) :
    p'.core.txid = p.core.txid ∧
    p'.index.toNat % 2 ^ Merkle.nLevels (depthOf p + 1) 1 p.core.path p.core.dups
      = p.index.toNat % 2 ^ Merkle.nLevels (depthOf p + 1) 1 p.core.path p.core.dups := by
  obtain ⟨hd, root, hl, _, _, hc, hm⟩ := C18_sound r mrOf p h f hv
  obtain ⟨hd', root', hl', _, _, hc', hm'⟩ := C18_sound r mrOf p' h' f' hv'
  have hsame : locate r p' = locate r p := by unfold locate; rw [hhdr, hbh]
  rw [hsame, hl] at hl'
  simp only [Except.ok.injEq, Prod.mk.injEq] at hl'
  obtain ⟨rfl, _, _⟩ := hl'
  rw [hm] at hm'
  simp only [Option.some.injEq] at hm'
  subst hm'
  unfold Merkle.Proof.calculateRoot Merkle.calcLoop at hc hc'
  simp only [hpath, hdups] at hc'
  have := Merkle.calcGo_root_determines _ _ _ _ _ _ _ _ _ hc' hc
  unfold depthOf
  exact this

/-- the range check then pins the index down completely. -/
theorem C18_index_determined (r : Repo) (mrOf : Hdr → Option H) (p p' : MProof) (h h' : Int) (f f' : Bool)
    (hpath : p'.core.path = p.core.path) (hdups : p'.core.dups = p.core.dups)
    (hhdr : p'.header = p.header) (hbh : p'.blockHash = p.blockHash)
    (hfull : Merkle.nLevels (depthOf p + 1) 1 p.core.path p.core.dups = depthOf p)
    (hv : verifyMerkleProof r mrOf p = .ok (h, f)) (hv' : verifyMerkleProof r mrOf p' = .ok (h', f')) :
    p'.index = p.index := by
  have hd : depthOf p' = depthOf p := by unfold depthOf; rw [hpath, hdups]
  obtain ⟨h1, h2⟩ := C18_index_in_range r mrOf p h f hv
  obtain ⟨h1', h2'⟩ := C18_index_in_range r mrOf p' h' f' hv'
  have := (C18_txid_and_index_determined r mrOf p p' h h' f f' hpath hdups hhdr hbh hv hv').2
  rw [hfull] at this
  rw [hd] at h2'
  have e1 : p.index.toNat < 2 ^ depthOf p := by
    have : (p.index.toNat : Int) = p.index := Int.toNat_of_nonneg h1
    have h3 : ((2 ^ depthOf p : Nat) : Int) = (2 : Int) ^ depthOf p := by norm_cast
    omega
  have e2 : p'.index.toNat < 2 ^ depthOf p := by
    have : (p'.index.toNat : Int) = p'.index := Int.toNat_of_nonneg h1'
    have h3 : ((2 ^ depthOf p : Nat) : Int) = (2 : Int) ^ depthOf p := by norm_cast
    omega
  rw [Nat.mod_eq_of_lt e1, Nat.mod_eq_of_lt e2] at this
  have a1 : (p.index.toNat : Int) = p.index := Int.toNat_of_nonneg h1
  have a2 : (p'.index.toNat : Int) = p'.index := Int.toNat_of_nonneg h1'
  omega

/-- **C18 (altering a path element makes it fail).** Two verifying proofs about the same header
    with the same index, the same duplicate markers and paths of the same length have the same
    transaction id and the SAME path: replacing any sibling hash of a valid proof yields a proof
    that does not verify. -/
theorem C18_path_determined (r : Repo) (mrOf : Hdr → Option H) (p p' : MProof) (h h' : Int) (f f' : Bool)
    (hidx : p'.index = p.index) (hdups : p'.core.dups = p.core.dups)
    (hlen : p'.core.path.length = p.core.path.length)
    (hhdr : p'.header = p.header) (hbh : p'.blockHash = p.blockHash)
    (hv : verifyMerkleProof r mrOf p = .ok (h, f)) (hv' : verifyMerkleProof r mrOf p' = .ok (h', f')) :
    p'.core.txid = p.core.txid ∧ p'.core.path = p.core.path := by
  obtain ⟨hd, root, hl, _, _, hc, hm⟩ := C18_sound r mrOf p h f hv
  obtain ⟨hd', root', hl', _, _, hc', hm'⟩ := C18_sound r mrOf p' h' f' hv'
  have hsame : locate r p' = locate r p := by unfold locate; rw [hhdr, hbh]
  rw [hsame, hl] at hl'
  simp only [Except.ok.injEq, Prod.mk.injEq] at hl'
  obtain ⟨rfl, _, _⟩ := hl'
  rw [hm] at hm'
  simp only [Option.some.injEq] at hm'
  subst hm'
  unfold Merkle.Proof.calculateRoot Merkle.calcLoop at hc hc'
  simp only [hidx, hdups] at hc'
  rw [hlen] at hc'
  exact Merkle.calcGo_root_determines_path _ _ _ _ _ _ _ _ _ hlen (by omega) hc' hc

end BRV.Repo
