/-
C06 — Each transaction seen reaches the processor exactly once; no duplicate requests.

Property theorems only (helper lemmas live in Proofs/TxMgr*.lean). Every theorem is about the
executable model `BRV.TxMgr` (Model/TxMgr.lean) of /repo/tx_manager.go, which the `tx` harness ties
to the real `TxManager` on every run.

Two semantics, both covered:
* Part I — SEQUENTIAL histories: every finite list of API calls (`Op`: AddTxID, AddTx,
  GetTxRequests with any bucket order), each running alone and carrying its clock reading; Run
  drains the channel after every delivery. Quantifiers: every op list, every node id, txid, max,
  clock reading, bucket order, every `Env` (time-out, ProcessTx/SaveTx outcomes).
* Part II — the INTERLEAVING semantics (`step`): any number of goroutines, each an API call with
  its own program counter, every critical section one atomic step, the Run goroutine, clock ticks
  anywhere, `interrupt` firing or not: every reachable configuration (`Reach`) / every schedule.

EXCLUDED FROM THE PROPERTY, by design of the code (each with a witness below):
* `Clean`: once an entry has been cleaned a re-delivery is processed again and the txid is requested
  again (`C06_excluded_clean`). Theorems assume `noClean`; the interleaving semantics has no Clean.
* `interrupt`/shutdown: `sendTx` gives up when the caller's interrupt fires, the transaction is marked
  received but never processed (`C06_excluded_interrupt`). At-most-once still holds with interrupts;
  exactly-once assumes none fired (`dropped = []`).
* ProcessTx/SaveTx returning an error ends Run; at-most-once and "saved iff relevant" still hold,
  exactly-once assumes `NoFail` (sequential) resp. an empty channel at quiescence (interleaving).
-/
import BRV.Proofs.TxMgrOnce
import BRV.Proofs.TxMgrConc

namespace BRV.TxMgr

/-! ## Part I — sequential histories -/

/-- **C06, sentence 1 (at most once; received ⇔ delivered).** After any Clean-free history, for every
    txid: ProcessTx calls + still queued + dropped by interrupt = 1 if the tx was delivered by at
    least one `AddTx` (by any number of peers, solicited or not), else 0. -/
theorem C06_forward_once (env : Env) (ops : List Op) (hops : noClean ops) (tx : TxId) :
    ((seqRun env {} ops).processed.count tx + (seqRun env {} ops).chan.count tx
        + (seqRun env {} ops).dropped.count tx = if recvdB (seqRun env {} ops) tx then 1 else 0)
    ∧ (recvdB (seqRun env {} ops) tx = true ↔ deliveredIn ops tx) := by
  constructor
  · have := seqRun_invF (env := env) ops hops invF_init tx
    simpa [fwd] using this
  · rw [seqRun_recvd env ops {} hops tx]; simp [recvdB]

/-- **C06, sentence 1 (exactly once).** If ProcessTx/SaveTx never fail (and no interrupt: sequential
    calls only give up on a full channel, which then cannot happen), a transaction is handed to the
    processor exactly once if it was delivered — however often and by however many peers — and never
    otherwise. -/
theorem C06_processed_exactly_once (env : Env) (hnf : NoFail env) (ops : List Op) (hops : noClean ops) (tx : TxId) :
    (deliveredIn ops tx → (seqRun env {} ops).processed.count tx = 1) ∧
    (¬ deliveredIn ops tx → (seqRun env {} ops).processed.count tx = 0) := by
  obtain ⟨h1, h2⟩ := C06_forward_once env ops hops tx
  obtain ⟨_, hc, hd⟩ := seqRun_calm hnf ops {} hops ⟨rfl, rfl, rfl⟩
  rw [hc, hd] at h1
  simp only [List.count_nil, Nat.add_zero] at h1
  constructor
  · intro hdl; rw [h2.mpr hdl] at h1; simpa using h1
  · intro hnd
    have : recvdB (seqRun env {} ops) tx = false := by
      cases hx : recvdB (seqRun env {} ops) tx
      · rfl
      · exact absurd (h2.mp hx) hnd
    rw [this] at h1; simpa using h1

/-- **C06, sentence 1 (saved exactly once if relevant).** The SaveTx calls are exactly the ProcessTx
    calls that reported "relevant", in order and multiplicity (no clock assumption needed). -/
theorem C06_saved_iff_relevant (env : Env) (ops : List Op) (hops : noClean ops) :
    (seqRun env {} ops).saved = (seqRun env {} ops).processed.filter (relevantB env) :=
  (seqRun_steps env ops {} hops).savedOK rfl

/-- the ghost list `grants` records exactly the `true` results of AddTxID. -/
theorem C06_grant_iff_true (env : Env) (st : Store) (node : NodeId) (tx : TxId) (now : Nat) :
    ((addTxID env st node tx now).2 = true →
        (addTxID env st node tx now).1.grants = ⟨tx, node, now, now⟩ :: st.grants) ∧
    ((addTxID env st node tx now).2 = false → (addTxID env st node tx now).1.grants = st.grants) := by
  rw [addTxID_eq]
  cases hcr : (annBucketSec { st with clock := now } node tx).2
  · simp only [Bool.false_eq_true, if_false]
    rw [annBucketSec_false _ _ _ hcr]
    exact annEntrySec_grants env { st with clock := now } node tx
  · simp only [if_true]
    exact ⟨fun _ => annBucketSec_true_grants { st with clock := now } node tx hcr, fun h => by cases h⟩

/-- … and exactly the txids a GetTxRequests call returns, in order (newest first in `grants`). -/
theorem C06_grants_are_poll_results (env : Env) (st : Store) (node : NodeId) (max : Int) (now : Nat) (order : List Nat) :
    (getTxRequests env st node max now order).1.grants =
      ((getTxRequests env st node max now order).2.reverse.map (fun k => (⟨k, node, now, now⟩ : Grant))) ++ st.grants := by
  obtain ⟨new, h1, h2⟩ := pollBuckets_grants env node max order { st with clock := now } []
  unfold getTxRequests
  rw [h2, h1]
  simp [pollGrant]

/-- **C06, sentence 2 (one request outstanding).** In any Clean-free history with non-decreasing clock
    readings, two request grants for the same txid — `true` from AddTxID or inclusion in a
    GetTxRequests result, to whichever peers — are at least the request time-out apart. `grants` is
    newest first, so `later` precedes `earlier`. -/
theorem C06_single_outstanding (env : Env) (ops : List Op) (hops : noClean ops) (ht : timed 0 ops) :
    (seqRun env {} ops).grants.Pairwise
      (fun later earlier => later.tx = earlier.tx → earlier.time + env.timeout ≤ later.time) := by
  have hi := seqRun_invS ops hops (invS_init env) ht
  have hs := seqRun_stampEq env ops {} hops (by intro g hg; cases hg)
  refine List.Pairwise.imp_of_mem ?_ hi.spaced
  intro a b _ hb hab htx
  rw [← hs b hb]; exact hab htx

/-- **C06, sentence 2 (never requested again after delivery).** Once a txid has been delivered, no
    later call of any kind adds a grant for it. -/
theorem C06_never_after_delivery (env : Env) (ops1 ops2 : List Op) (h1 : noClean ops1) (h2 : noClean ops2)
    (tx : TxId) (hd : deliveredIn ops1 tx) :
    grantsOf (seqRun env {} (ops1 ++ ops2)) tx = grantsOf (seqRun env {} ops1) tx := by
  have hr : recvdB (seqRun env {} ops1) tx = true := (C06_forward_once env ops1 h1 tx).2.mpr hd
  have : seqRun env {} (ops1 ++ ops2) = seqRun env (seqRun env {} ops1) ops2 := by
    simp [seqRun, List.foldl_append]
  rw [this]
  exact ((seqRun_steps env ops2 _ h2).keeps tx hr).2

/-- AddTxID itself answers `false` for a delivered txid. -/
theorem C06_announce_after_delivery (env : Env) (st : Store) (node : NodeId) (tx : TxId) (now : Nat)
    (hr : recvdB st tx = true) : (addTxID env st node tx now).2 = false := by
  cases h : (addTxID env st node tx now).2
  · rfl
  · have hg := (C06_grant_iff_true env st node tx now).1 h
    have hk := ((addTxID_steps env st node tx now).keeps tx hr).2
    have hlen := congrArg List.length hk
    unfold grantsOf at hlen
    rw [hg] at hlen
    simp at hlen

/-- **C06, sentence 2 (a peer that announced and was not asked is remembered).** If AddTxID answers
    `false` for an undelivered txid, the node is recorded on the entry's NodeIDs. -/
theorem C06_denied_announcer_recorded (env : Env) (st : Store) (node : NodeId) (tx : TxId) (now : Nat)
    (h : (addTxID env st node tx now).2 = false) (hnr : recvdB (addTxID env st node tx now).1 tx = false) :
    waitingP (addTxID env st node tx now).1 node tx := by
  rw [addTxID_eq] at h hnr ⊢
  cases hcr : (annBucketSec { st with clock := now } node tx).2
  · rw [hcr] at h hnr
    simp only [Bool.false_eq_true, if_false] at h hnr ⊢
    obtain ⟨e, he⟩ := annBucketSec_false_some _ _ _ hcr
    rw [annBucketSec_false _ _ _ hcr] at h hnr ⊢
    exact annEntrySec_false_waiting env _ node tx e he h hnr
  · rw [hcr] at h; simp at h

/-- **C06, sentence 2 (… until it is asked).** A recorded announcer stays recorded through any Clean-free
    history (whatever the clock does) unless it has meanwhile been granted the txid. -/
theorem C06_recorded_until_granted (env : Env) (st : Store) (ops : List Op) (hops : noClean ops)
    (n : NodeId) (tx : TxId) (hw : waitingP st n tx) :
    waitingP (seqRun env st ops) n tx ∨ grantCount st tx n < grantCount (seqRun env st ops) tx n :=
  (seqRun_steps env ops st hops).waiting n tx hw

/-- **C06, sentence 2 (what a poll returns).** From any state satisfying the invariant (in particular
    after any timed Clean-free history, `C06_invariant`), `GetTxRequests(node, max)` at time `now`
    returns only txids that are eligible for that node — announced by it and not asked since, not
    delivered, last request at least the time-out ago — and, when it returns fewer than `max` txids,
    ALL eligible txids whose bucket is in the visiting order (Go's order is a permutation of all 256).
    (`max` is only tested after a whole bucket, so more than `max` txids can be returned.) -/
theorem C06_poll_exact (env : Env) (st : Store) (hi : InvS env st) (node : NodeId) (max : Int) (now : Nat)
    (order : List Nat) (hc : st.clock ≤ now) :
    (∀ tx ∈ (getTxRequests env st node max now order).2, eligibleP env { st with clock := now } node tx) ∧
    (((getTxRequests env st node max now order).2.length : Int) < max →
      ∀ tx, eligibleP env { st with clock := now } node tx → bucketOf tx ∈ order →
        tx ∈ (getTxRequests env st node max now order).2) := by
  have hi' := hi.setClock now hc
  constructor
  · intro tx htx
    rcases pollBuckets_sound env node max order _ [] hi' tx htx with h | h
    · cases h
    · exact h
  · intro hlen tx hel hb
    exact pollBuckets_complete env node max order _ [] hi' tx hlen hel hb

/-- the invariant used above holds after every timed Clean-free history. -/
theorem C06_invariant (env : Env) (ops : List Op) (hops : noClean ops) (ht : timed 0 ops) :
    InvS env (seqRun env {} ops) :=
  seqRun_invS ops hops (invS_init env) ht

/-- **C06, sentence 2 (retry by each other announcer once the time-out has passed).** After any timed
    Clean-free history: if node `n` is recorded for `tx` (it announced it and was not asked,
    `C06_denied_announcer_recorded` / `C06_recorded_until_granted`), `tx` has not been delivered, and
    every request granted for `tx` so far is at least the time-out old, then a poll by `n` that returns
    fewer than `max` txids returns `tx`. -/
theorem C06_retry_each_announcer (env : Env) (ops : List Op) (hops : noClean ops) (ht : timed 0 ops)
    (n : NodeId) (tx : TxId) (max : Int) (now : Nat) (order : List Nat)
    (hw : waitingP (seqRun env {} ops) n tx) (hnr : recvdB (seqRun env {} ops) tx = false)
    (hold : ∀ g ∈ (seqRun env {} ops).grants, g.tx = tx → g.time + env.timeout ≤ now)
    (hc : (seqRun env {} ops).clock ≤ now) (hb : bucketOf tx ∈ order)
    (hlen : ((getTxRequests env (seqRun env {} ops) n max now order).2.length : Int) < max) :
    tx ∈ (getTxRequests env (seqRun env {} ops) n max now order).2 := by
  have hi := C06_invariant env ops hops ht
  obtain ⟨e, he, hn⟩ := hw
  have hr : e.received = none := by
    cases hx : e.received
    · rfl
    · simp [recvdB, he, hx] at hnr
  obtain ⟨g, hg, hgt, hgs⟩ := hi.lastEx tx e he hr
  have h1 := (hi.times g hg).1
  have h2 := hold g hg hgt
  refine (C06_poll_exact env _ hi n max now order hc).2 hlen tx ⟨e, he, hr, hn, ?_⟩ hb
  simp only
  omega

/-- **C06, sentence 2 (once per announcement).** A grant takes the node off the entry: right after
    `AddTxID` answered `true`, or after a poll returned the txid, the node is not recorded. -/
theorem C06_granted_not_recorded (env : Env) (st : Store) (hi : InvS env st) (node : NodeId) (tx : TxId)
    (max : Int) (now : Nat) (order : List Nat) (hc : st.clock ≤ now) :
    ((addTxID env st node tx now).2 = true → ¬ waitingP (addTxID env st node tx now).1 node tx) ∧
    (tx ∈ (getTxRequests env st node max now order).2 →
      ¬ waitingP (getTxRequests env st node max now order).1 node tx) := by
  constructor
  · exact addTxID_true_not_waiting node tx now hi
  · intro h
    rcases pollBuckets_granted_not_waiting node max order [] (hi.setClock now hc) tx h with h1 | h1
    · cases h1
    · exact h1

/-- … and a node that is not recorded is never handed the txid by a poll until it announces it again:
    over any Clean-free timed continuation without an announcement of `tx` by `n`, a poll by `n` does not
    return `tx`. -/
theorem C06_once_per_announcement (env : Env) (st : Store) (hi : InvS env st) (ops : List Op)
    (hops : noClean ops) (ht : timed st.clock ops) (n : NodeId) (tx : TxId)
    (hann : ∀ op ∈ ops, ¬ op.isAnnOf n tx) (h : ¬ waitingP st n tx)
    (max : Int) (now : Nat) (order : List Nat) (hc : (seqRun env st ops).clock ≤ now) :
    tx ∉ (getTxRequests env (seqRun env st ops) n max now order).2 := by
  intro hin
  have hnw := seqRun_not_waiting env ops st hops n tx hann h
  have hi' := seqRun_invS ops hops hi ht
  obtain ⟨e, he, _, hn, _⟩ := (C06_poll_exact env _ hi' n max now order hc).1 tx hin
  exact hnw ⟨e, he, hn⟩

/-! ## Part II — every interleaving -/

/-- **C06, sentence 1, all interleavings (at most once).** In every reachable configuration — any
    number of goroutines, any schedule, interrupts included — for every txid:
    ProcessTx calls + queued in the channel + goroutines inside `sendTx` + dropped by interrupt
    = 1 if the entry is marked received, else 0. In particular ProcessTx is called at most once. -/
theorem C06_conc_forward_once (env : Env) (c : Config) (h : Reach env c) (tx : TxId) :
    c.st.processed.count tx + c.st.chan.count tx + c.st.dropped.count tx + pending c.threads tx
      = if recvdB c.st tx then 1 else 0 := by
  have := (InvC.reach h).f tx
  simpa [fwd] using this

/-- the entry is marked received exactly when some AddTx call for the txid has passed its lock
    sections (is inside `sendTx` or has returned). -/
theorem C06_conc_received_iff_delivered (env : Env) (c : Config) (h : Reach env c) (tx : TxId) :
    recvdB c.st tx = true ↔ ∃ t ∈ c.threads, passedDlv tx t = true := by
  rw [(InvD.reach h).passed tx, List.countP_pos_iff]

/-- **C06, sentence 1, all interleavings (exactly once).** In a reachable configuration where no
    goroutine is inside `sendTx`, the channel is empty and no interrupt has fired, ProcessTx has been
    called exactly once for every txid that some AddTx call delivered, and never for any other. -/
theorem C06_conc_exactly_once (env : Env) (c : Config) (h : Reach env c) (tx : TxId)
    (hq : pending c.threads tx = 0) (hch : c.st.chan = []) (hdr : c.st.dropped = []) :
    ((∃ t ∈ c.threads, passedDlv tx t = true) → c.st.processed.count tx = 1) ∧
    ((¬ ∃ t ∈ c.threads, passedDlv tx t = true) → c.st.processed.count tx = 0) := by
  have h1 := C06_conc_forward_once env c h tx
  have h2 := C06_conc_received_iff_delivered env c h tx
  rw [hq, hch, hdr] at h1
  simp only [List.count_nil, Nat.add_zero] at h1
  constructor
  · intro hd; rw [h2.mpr hd] at h1; simpa using h1
  · intro hnd
    have : recvdB c.st tx = false := by
      cases hx : recvdB c.st tx
      · rfl
      · exact absurd (h2.mp hx) hnd
    rw [this] at h1; simpa using h1

/-- **C06, sentence 1, all interleavings (saved iff relevant).** -/
theorem C06_conc_saved_iff_relevant (env : Env) (c : Config) (h : Reach env c) :
    c.st.saved = c.st.processed.filter (relevantB env) :=
  (InvC.reach h).s.saved

/-- every grant stores the clock value of the moment it is decided (AddTxID and, since repository fix
    9c84f1c, GetTxRequests too), in every interleaving. -/
theorem C06_conc_stamp_is_time (env : Env) (c : Config) (h : Reach env c) :
    ∀ g ∈ c.st.grants, g.stamp = g.time :=
  StampEq.reach h

/-- **C06, sentence 2, all interleavings (one request outstanding).** In every reachable configuration —
    any number of goroutines, pollers overtaken by clock ticks and by each other in any way — two request
    grants of one txid (to whichever peers, by AddTxID or GetTxRequests) are at least the request time-out
    apart in model time. `grants` is newest first. -/
theorem C06_conc_single_outstanding (env : Env) (c : Config) (h : Reach env c) :
    c.st.grants.Pairwise (fun later earlier => later.tx = earlier.tx →
        earlier.time + env.timeout ≤ later.time) := by
  have hi := (InvC.reach h).s
  have hs := StampEq.reach h
  refine List.Pairwise.imp_of_mem ?_ hi.spaced
  intro a b _ hb hab htx
  rw [← hs b hb]; exact hab htx

/-- **C06, sentence 2, all interleavings (never after delivery).** From a reachable configuration in
    which the txid is marked received, no schedule whatsoever adds a grant for it. -/
theorem C06_conc_never_after_delivery (env : Env) (c c' : Config) (h : Reach env c) (hs : Steps env c c')
    (tx : TxId) (hr : recvdB c.st tx = true) :
    recvdB c'.st tx = true ∧ grantsOf c'.st tx = grantsOf c.st tx :=
  (hs.ssteps (InvC.reach h)).keeps tx hr

/-- **C06, sentence 2, all interleavings (a recorded announcer stays recorded until granted).** -/
theorem C06_conc_recorded_until_granted (env : Env) (c c' : Config) (h : Reach env c) (hs : Steps env c c')
    (n : NodeId) (tx : TxId) (hw : waitingP c.st n tx) :
    waitingP c'.st n tx ∨ grantCount c.st tx n < grantCount c'.st tx n :=
  (hs.ssteps (InvC.reach h)).waiting n tx hw

/-! ## Witnesses: exclusions, the stale-stamp anomaly, non-vacuity -/

def exEnv : Env := { timeout := 10, proc := fun t => .ok (t % 2 == 1) }

/-- Excluded (Clean): after `Clean` removed the entry, a second delivery is processed again. -/
theorem C06_excluded_clean :
    (seqRun exEnv {} [.dlv 1 5 0, .clean 10, .dlv 2 5 20]).processed = [5, 5] := by decide

/-- Excluded (interrupt): the AddTx goroutine marks the tx received, then its interrupt fires inside
    `sendTx`: the transaction never reaches the processor. -/
theorem C06_excluded_interrupt :
    let c := exec exEnv {} [.callDlv 1 5 true, .thread 0 0, .thread 0 1, .run]
    recvdB c.st 5 = true ∧ c.st.processed = [] ∧ c.st.dropped = [5] := by decide

/-- a schedule with two pollers overtaking each other: nodes 2 and 3 are recorded for tx 7 (requested
    from node 1 at time 0); poll P1 (node 2) starts at time 1 but runs late; poll P2 (node 3) starts and
    grants at time 12; at time 22 P1 reaches the entry and grants (each poll then releases the bucket's
    read lock); at the same instant node 4 announces the tx. -/
def overtakeSched : List Action :=
  [.callAnn 1 7, .thread 0 0,
   .callAnn 2 7, .thread 1 0, .thread 1 0,
   .callAnn 3 7, .thread 2 0, .thread 2 0,
   .tick 1, .callPoll 2 10 [7],
   .tick 11, .callPoll 3 10 [7], .thread 4 0, .thread 4 0, .thread 4 0,
   .tick 10, .thread 3 0, .thread 3 0, .thread 3 0,
   .callAnn 4 7, .thread 5 0, .thread 5 0]

/-- with the current code P1's grant is stamped 22, so node 4 is refused. (node, time, stamp), newest first. -/
theorem C06_overtaken_poll_current :
    (exec exEnv {} overtakeSched).st.grants.map (fun g => (g.node, g.time, g.stamp))
      = [(2, 22, 22), (3, 12, 12), (1, 0, 0)]
    ∧ (exec exEnv {} overtakeSched).threads[5]? = some (.annDone 4 7 false) := by decide

/-- GetTxRequests' entry section as it was BEFORE repository fix 9c84f1c: the time-out test reads the
    clock (`st.clock`), but LastRequested gets `now`, the value read when the call started. -/
def oldPollEntrySec (env : Env) (st : Store) (node : NodeId) (now : Nat) (tx : TxId) : Store × Bool :=
  match st.ent tx with
  | none => (st, false)
  | some e =>
    if e.received.isSome then (st, false)
    else if !(e.nodeIDs.contains node) then (st, false)
    else if st.clock < e.lastRequested + env.timeout then (st, false)
    else
      ((st.setEnt tx { e with lastRequested := now, nodeIDs := removeID e.nodeIDs node }).grant tx node now, true)

/-- the same overtaking with the OLD section: requested from node 1 at 0; P2 (started 12) grants at 12;
    P1 (started 1) reaches the entry at 22, grants and stamps 1; AddTxID by node 4 at 22 is granted too. -/
def oldFormulaRun : Store × Bool :=
  let s0 := (addTxID exEnv (addTxID exEnv (addTxID exEnv {} 1 7 0).1 2 7 0).1 3 7 0).1
  let s1 := (oldPollEntrySec exEnv { s0 with clock := 12 } 3 12 7).1
  let s2 := (oldPollEntrySec exEnv { s1 with clock := 22 } 2 1 7).1
  addTxID exEnv s2 4 7 22

/-- **Documentation of the repaired defect (old formula only).** With the start-of-call stamp two
    requests for the same txid were granted at the same instant (time 22, nodes 2 and 4) although the
    time-out is 10; this is what `corpus/C06/tx-stale-stamp.ops` checks on the real code. -/
theorem C06_old_formula_stale_stamp_anomaly :
    oldFormulaRun.2 = true ∧
    oldFormulaRun.1.grants.map (fun g => (g.node, g.time, g.stamp))
      = [(4, 22, 22), (2, 22, 1), (3, 12, 12), (1, 0, 0)] := by decide

/-- a history exercising every clause: same tx announced by three peers at one instant, retry after the
    time-out by both other announcers, delivery by two peers, unsolicited delivery, announcement after
    delivery. -/
def exOps : List Op :=
  [.ann 1 5 0, .ann 2 5 0, .ann 3 5 0, .poll 2 10 3 [5], .poll 2 10 10 [5], .poll 3 10 10 [5],
   .poll 3 10 20 [5], .dlv 2 5 21, .dlv 3 5 21, .dlv 1 8 21, .ann 1 5 40, .poll 3 10 40 [5, 8]]

example : noClean exOps := by simp [noClean, exOps, Op.isClean]
example : timed 0 exOps := by simp [exOps, timed, Op.time]
example : NoFail exEnv := ⟨by intro t; simp [exEnv], by intro t; rfl⟩
example : (seqRun exEnv {} exOps).processed = [5, 8] ∧ (seqRun exEnv {} exOps).saved = [5] := by decide
example : (seqRun exEnv {} exOps).grants.map (fun g => (g.tx, g.node, g.time))
    = [(5, 3, 20), (5, 2, 10), (5, 1, 0)] := by decide
example : deliveredIn exOps 5 := ⟨2, 21, by simp [exOps]⟩
/-- hypotheses of `C06_retry_each_announcer` are met (node 3 after the first three announcements). -/
example : waitingP (seqRun exEnv {} (exOps.take 3)) 3 5 := ⟨⟨0, none, [2, 3]⟩, by decide, by decide⟩
example : (getTxRequests exEnv (seqRun exEnv {} (exOps.take 3)) 3 10 10 [5]).2 = [5] := by decide
/-- hypotheses of the interleaving theorems are met by a non-trivial reachable configuration. -/
theorem exec_reach (env : Env) (sched : List Action) (c : Config) (h : Reach env c) : Reach env (exec env c sched) := by
  induction sched generalizing c with
  | nil => exact h
  | cons a as ih =>
    simp only [exec, List.foldl_cons]
    cases hs : step env c a with
    | none => simpa [exec] using ih c h
    | some c' => simpa [exec] using ih c' (.step c c' a h hs)

example : Reach exEnv (exec exEnv {} overtakeSched) := exec_reach _ _ _ .init
example : (exec exEnv {} [.callDlv 1 5 false, .callDlv 2 5 false, .thread 0 0, .thread 1 0, .thread 1 0,
    .thread 0 0, .run]).st.processed = [5] := by decide

/-! ### the critical sections, as written in tx_manager.go

The small-step semantics takes a mutex critical section as one atomic step: in `AddTxID` and `AddTx` the bucket
section (look the txid up AND insert the new entry under one `txMap.Lock`) and the entry section (`data.Lock`),
in `GetTxRequests` one entry at a time under the bucket's read lock. Races between two callers inside these
functions are below the call granularity of the correspondence (the stress stream samples them), so the sequence
of lock operations, with the control structure and the returns around them, is regenerated from the source on every
run (`lockTrace` in go/cmd/extract) and compared here: a change of the locking discipline — a lookup moved out of
the bucket section, an entry used after its unlock, a read lock where the write lock was — breaks this theorem
even when no run happens to hit the window. -/
theorem C06_critical_sections_in_source :
    Facts.locks_AddTxID =
      ["m.RLock", "m.RUnlock", "txMap.Lock", "if{", "txMap.Unlock", "data.Lock", "if{", "data.Unlock", "return", "}",
       "if{", "data.Unlock", "return", "}", "data.Unlock", "return", "}", "txMap.Unlock", "return"] ∧
    Facts.locks_AddTx =
      ["m.RLock", "m.RUnlock", "txMap.Lock", "if{", "txMap.Unlock", "data.Lock", "data.Unlock", "return", "}",
       "txMap.Unlock", "return"] ∧
    Facts.locks_GetTxRequests =
      ["for{", "m.RLock", "m.RUnlock", "txMap.RLock", "for{", "data.Lock", "if{", "data.Unlock", "}", "if{",
       "data.Unlock", "}", "if{", "data.Unlock", "}", "data.Unlock", "}", "txMap.RUnlock", "if{", "return", "}", "}",
       "return"] ∧
    -- `Clean` (excluded from the exactly-once theorems for what it removes BY AGE) rebuilds a bucket under that
    -- bucket's write lock: an entry inserted meanwhile cannot be lost
    Facts.locks_Clean = ["for{", "m.RLock", "m.RUnlock", "txMap.Lock", "txMap.Unlock", "}", "return"] := by decide

end BRV.TxMgr
