/-
C17 — A header marked invalid, and everything built on it, is excluded until unmarked.

Theorems about `markInvalid` / `markNotInvalid` / `processHeader` / `save` / `load` of the model,
for every repository state. What is proved here: a marked hash can never be (re-)added, marking is
idempotent and pre-empts unknown hashes without touching the chain, the trim removes the marked
header from the lookups of its branch, unmarking lifts the refusal, and the mark survives Save/Load
(merged with the configured hashes). For every state reached by submissions from genesis
(`C17_marked_excluded`): after marking a held header, the chain of NO tracked branch — in particular
the reported best chain — passes through it (so neither it nor anything built on it is reported),
and the reported tip is a branch of maximal accumulated work among the remaining ones. After
maintenance operations (Clean/Save/Load before the mark) the same is carried by the correspondence
+ monitor; marks at or below the in-memory window are the known finding.
-/
import BRV.Proofs.RepoBasics
import BRV.Proofs.RepoTrim
import BRV.Proofs.RepoExample
import BRV.Props.C01
import BRV.Props.C12
import BRV.Proofs.LoadIds

namespace BRV.Repo

/-- **C17 (any later submission of a marked header is refused).** While a hash is in the invalid
    list no submission of a header with that hash gets past the checks: it is answered invalid, or
    with an earlier refusal (bad bits/work, unknown parent, wrong chain, already held) — never added. -/
theorem C17_marked_never_added (r : Repo) (h : Hdr) (ok : Bool) (hm : r.invalid.contains h.id = true) :
    ∃ v, precheck r h ok = .inl v ∧ v ≠ .ok ∧ (processHeader r h ok).1 = r := by
  cases hpc : precheck r h ok with
  | inl v =>
    refine ⟨v, rfl, ?_, ?_⟩
    · exact precheck_inl_ne_ok r h ok v hpc
    · rw [processHeader_of_inl r h ok v hpc]
  | inr x =>
    obtain ⟨pb, ph, lst⟩ := x
    have := (precheck_inr r h ok pb ph lst hpc).notInvalid
    rw [hm] at this; cases this

/-- when every earlier rule passes, the answer is exactly "marked invalid". -/
theorem C17_refused_as_invalid (r : Repo) (h : Hdr) (ok : Bool) (pb : Nat) (ph : Int)
    (hb : Work.malformedBits h.bits = false) (hw : r.disableDifficulty = true ∨ ok = true)
    (hparent : r.branchesFind h.prev = some (pb, ph)) (hfresh : r.branchesFind h.id = none)
    (hs1 : r.disableSplit = true ∨ r.cfg.splits.any (fun s => s.height == ph + 1 && s.after == h.id) = false)
    (hs2 : r.disableSplit = true ∨ requiredViolated r (ph + 1) h.id = false)
    (hdaa : daaVerdict r pb (ph + 1) h.bits = none) (hm : r.invalid.contains h.id = true) :
    processHeader r h ok = (r, { verdict := .invalid, events := [] }) := by
  apply processHeader_of_inl
  unfold precheck
  have hw' : (!r.disableDifficulty && !ok) = false := by
    rcases hw with hw | hw <;> simp [hw]
  have h1 : (!r.disableSplit && r.cfg.splits.any (fun s => s.height == ph + 1 && s.after == h.id)) = false := by
    rcases hs1 with hs | hs <;> simp [hs]
  have h2 : (!r.disableSplit && requiredViolated r (ph + 1) h.id) = false := by
    rcases hs2 with hs | hs <;> simp [hs]
  simp only [hb, Bool.false_eq_true, ↓reduceIte, hw', hparent, hfresh, Option.isSome_none, h1, h2, hdaa, hm]

theorem markRecord_contains (r : Repo) (id : Nat) : (markRecord r id).invalid.contains id = true := by
  unfold markRecord
  by_cases hc : r.invalid.contains id = true
  · simp only [hc, ↓reduceIte]
  · simp only [hc, Bool.false_eq_true, ↓reduceIte]
    have key : (r.invalid ++ [id]).contains id = true := by simp
    simpa [saveInvalid, Repo.emit] using key

theorem markRecord_find (r : Repo) (id x : Nat) : (markRecord r id).branchesFind x = r.branchesFind x := by
  unfold markRecord
  split
  · rfl
  · rfl

/-- `trim` does not touch the invalid list. -/
theorem trim_invalid (r1 : Repo) (bi : Nat) (h : Int) (r2 : Repo) (htrim : trim r1 bi h = .ok r2) :
    r2.invalid = r1.invalid := by
  unfold trim at htrim
  simp only at htrim
  split at htrim
  · cases htrim
  · rename_i r1' hs1
    simp only [Except.ok.injEq] at htrim
    rw [← htrim]
    simp only
    split at hs1
    · simp only [Except.ok.injEq] at hs1; rw [← hs1]
    · split at hs1
      · cases hs1
      · split at hs1
        · cases hs1
        · split at hs1
          · cases hs1
          · split at hs1
            · cases hs1
            · simp only [Except.ok.injEq] at hs1; rw [← hs1]; rfl

/-- **C17 (marking records the hash)**, whatever the outcome. -/
theorem C17_mark_records (r : Repo) (id : Nat) : (markInvalid r id).1.invalid.contains id = true := by
  have key := markRecord_contains r id
  unfold markInvalid
  simp only
  split
  · exact key
  · split
    · exact key
    · rename_i r2 htrim
      have hinv := trim_invalid _ _ _ _ htrim
      split <;> (simp only; rw [hinv]; exact key)

/-- **C17 (marking twice = marking once).** After a successful mark in a well-linked forest with unique
    identities, a second mark of the same hash changes nothing and succeeds: the hash is in the list and no
    tracked branch holds the header any more. -/
theorem C17_mark_idempotent (r : Repo) (hf : ForestOK r) (hi : IdOK r) (id : Nat) (hs : (markInvalid r id).2 = none) :
    markInvalid (markInvalid r id).1 id = ((markInvalid r id).1, none) := by
  have h := C17_mark_records r id
  have hf' := forestOK_markInvalid r hf id
  have hex := markInvalid_excludes r hf hi id hs
  generalize (markInvalid r id).1 = r' at h hf' hex ⊢
  have hrec : markRecord r' id = r' := by unfold markRecord; simp only [h, ↓reduceIte]
  have hnone : r'.branchesFind id = none := by
    cases hfind : r'.branchesFind id with
    | none => rfl
    | some x =>
      obtain ⟨bi, hh⟩ := x
      obtain ⟨hbim, d, hd, hid⟩ := found_holder r' hf' id bi hh hfind
      unfold getI at hd
      split at hd
      · cases hd
      · exact absurd hid (hex bi hbim _ d hd)
  unfold markInvalid
  simp only [hrec, hnone]

/-- **C17 (marking an unknown hash simply pre-empts it).** Branches, tip, heights and main/branch
    storage are untouched; only the invalid list (in memory and in storage) grows. -/
theorem C17_unknown_mark (r : Repo) (id : Nat) (hnew : r.invalid.contains id = false)
    (hunk : r.branchesFind id = none) :
    let r' := (markInvalid r id).1
    (markInvalid r id).2 = none ∧ r'.arena = r.arena ∧ r'.branches = r.branches ∧ r'.longest = r.longest ∧
    r'.heights = r.heights ∧ r'.invalid = r.invalid ++ [id] ∧ r'.store.invalid = some (r.invalid ++ [id]) ∧
    r'.store.main = r.store.main ∧ r'.store.branches = r.store.branches ∧ r'.store.index = r.store.index := by
  have hfind : (markRecord r id).branchesFind id = none := by rw [markRecord_find]; exact hunk
  have hc : ¬ (id ∈ r.invalid) := by
    intro hm; have : r.invalid.contains id = true := by simpa using hm
    rw [hnew] at this; cases this
  simp only [markInvalid, hfind]
  simp [markRecord, hc, saveInvalid, Repo.emit, Store.apply]

/-- marking an unknown hash that is already in the list (for instance a configured one) changes nothing. -/
theorem C17_unknown_mark_again (r : Repo) (id : Nat) (hold : r.invalid.contains id = true)
    (hunk : r.branchesFind id = none) : markInvalid r id = (r, none) := by
  have hrec : markRecord r id = r := by unfold markRecord; simp only [hold, ↓reduceIte]
  unfold markInvalid
  simp only [hrec, hunk]

/-- **C17 (the marked header and everything built on it are excluded; fall back to the heaviest
    remaining chain).** In every state reached by submissions from genesis: after `MarkHeaderInvalid`
    of a held header succeeded, (1) the chain of no tracked branch contains the marked header — a
    header built on it has it in its ancestry, so no such header is on a tracked chain either —, in
    particular (2) the reported best chain does not; (3) the reported tip is a tracked branch whose
    accumulated work is maximal among all remaining tracked branches. -/
theorem C17_marked_excluded (r : Repo) (hs : StreamWF r) (id bi0 : Nat) (h : Int)
    (hf : r.branchesFind id = some (bi0, h))
    (hok : (markInvalid r id).2 = none) :
    (∀ x ∈ (markInvalid r id).1.branches, ∀ (k : Int) (d : HData),
        atH (markInvalid r id).1.arena x k = some d → d.hdr.id ≠ id) ∧
    (markInvalid r id).1.longest ∈ (markInvalid r id).1.branches ∧
    (∃ wl, lastWork (markInvalid r id).1.arena (markInvalid r id).1.longest = some wl ∧
      ∀ b ∈ (markInvalid r id).1.branches, ∃ w, lastWork (markInvalid r id).1.arena b = some w ∧ w ≤ wl) := by
  have hheld := branchesFind_owner r hs.chain.wf.link hs.chain.wf.ids hs.chain.wf.list id bi0 h hf
  have hs1 : StreamWF (markRecord r id) := by
    unfold markRecord
    split
    · exact hs
    · refine streamWF_congr r _ ?_ ?_ ?_ hs <;> rfl
  have hfind : (markRecord r id).branchesFind id = some (bi0, h) := by rw [markRecord_find]; exact hf
  unfold markInvalid at hok ⊢
  simp only [hfind] at hok ⊢
  cases ht : trim (markRecord r id) bi0 h with
  | error e => rw [ht] at hok; cases hok
  | ok r2 =>
    rw [ht] at hok
    simp only at hok ⊢
    cases hlg : longestOf r2.arena r2.branches with
    | none => rw [hlg] at hok; cases hok
    | some lg =>
      simp only
      obtain ⟨hmem, hmax⟩ := longestOf_spec _ _ _ hlg
      have hheld1 : HeldAt (markRecord r id).arena bi0 id h := by
        rw [(markRecord_frame r id).1]; exact hheld
      exact ⟨trim_excludes _ hs1 bi0 id h hheld1 r2 ht, hmem, hmax⟩

/-- the best chain in particular: no height of the reported chain returns the marked header. -/
theorem C17_best_chain_excludes (r : Repo) (hs : StreamWF r) (id bi0 : Nat) (h : Int)
    (hf : r.branchesFind id = some (bi0, h))
    (hok : (markInvalid r id).2 = none) (k : Int) (d : HData)
    (hd : atH (markInvalid r id).1.arena (markInvalid r id).1.longest k = some d) : d.hdr.id ≠ id := by
  obtain ⟨hex, hmem, _⟩ := C17_marked_excluded r hs id bi0 h hf hok
  exact hex _ hmem k d hd

/-- **C17 (unmarking makes the header acceptable again).** After `MarkHeaderNotInvalid` the hash is
    no longer in the list (duplicate-free list, which `MarkHeaderInvalid` maintains), so the invalid
    rule no longer refuses it. -/
theorem C17_unmark (r : Repo) (id : Nat) (hnd : r.invalid.Nodup) :
    (markNotInvalid r id).invalid.contains id = false := by
  unfold markNotInvalid
  by_cases hc : r.invalid.contains id = true
  · simp only [hc, ↓reduceIte, saveInvalid, Repo.emit]
    have : ∀ l : List Nat, l.Nodup → (markNotInvalid.rm id l).contains id = false := by
      intro l hl
      induction l with
      | nil => simp [markNotInvalid.rm]
      | cons x xs ih =>
        simp only [List.nodup_cons] at hl
        unfold markNotInvalid.rm
        by_cases hx : x = id
        · subst hx; simp only [↓reduceIte]
          simpa using hl.1
        · simp only [hx, ↓reduceIte, List.contains_cons]
          have := ih hl.2
          simp only [Bool.or_eq_false_iff, beq_eq_false_iff_ne, ne_eq]
          exact ⟨fun hc => hx hc.symm, this⟩
    exact this r.invalid hnd
  · simp only [hc, Bool.false_eq_true, ↓reduceIte]

/-- **C17 (the marking survives Save/Load).** `Save` writes the list; `Load` installs what
    storage holds, then the configured hashes not already in it. -/
theorem C17_persists_list (st : Store) (cfg : Cfg) (x : Nat)
    (hx : x ∈ st.invalid.getD [] ∨ x ∈ cfg.cfgInvalid) : x ∈ mergedInvalid st cfg := by
  unfold mergedInvalid
  have gen : ∀ (l acc : List Nat), (x ∈ acc ∨ x ∈ l) →
      x ∈ l.foldl (fun acc y => if acc.contains y then acc else acc ++ [y]) acc := by
    intro l
    induction l with
    | nil => intro acc h; simpa using h
    | cons y ys ih =>
      intro acc h
      simp only [List.foldl_cons]
      apply ih
      rcases h with h | h
      · left; split <;> simp [h]
      · simp only [List.mem_cons] at h
        rcases h with rfl | h
        · left
          split
          · rename_i hc; simpa using hc
          · simp
        · right; exact h
  exact gen _ _ hx

theorem C17_save_writes_list (r : Repo) : (saveInvalid r).store.invalid = some r.invalid := by
  simp [saveInvalid, Repo.emit, Store.apply]

/-! ### non-vacuity -/

example : (markInvalid {} 5).1.invalid = [5] := by decide
example : (markNotInvalid (markInvalid {} 5).1 5).invalid = [] := by decide
example : mergedInvalid { invalid := some [3, 4] } { cfgInvalid := [4, 9] } = [3, 4, 9] := by decide

/-- the hypotheses of `C17_marked_excluded` are met: genesis plus one accepted header, which is then marked. -/
example : StreamWF (processHeader genesisRepo { id := 1, prev := 0, bits := 0x1d00ffff, time := 2 } true).1 := by
  apply streamWF_processHeader genesisRepo _ true genesisRepo_streamWF
  intro pb ph lst hp
  have : precheck genesisRepo { id := 1, prev := 0, bits := 0x1d00ffff, time := 2 } true
      = .inr (0, 0, { hdr := { id := 0, prev := 99, bits := 0x1d00ffff, time := 1 }, work := 4295032833 }) := by decide
  rw [this] at hp
  simp only [Sum.inr.injEq, Prod.mk.injEq] at hp
  obtain ⟨rfl, rfl, rfl⟩ := hp
  decide

example : (processHeader genesisRepo { id := 1, prev := 0, bits := 0x1d00ffff, time := 2 } true).1.branchesFind 1 = some (0, 1) ∧
    (markInvalid (processHeader genesisRepo { id := 1, prev := 0, bits := 0x1d00ffff, time := 2 } true).1 1).2 = none ∧
    (markInvalid (processHeader genesisRepo { id := 1, prev := 0, bits := 0x1d00ffff, time := 2 } true).1 1).1.longest = 0 := by
  decide

/-- **C17 ("the best chain falls back to the heaviest remaining accepted chain") over forest histories from
    any loaded state.** From the repository Load builds out of any consistent storage image, after ANY history of
    submissions (with automatic cleans), Cleans and Saves with no reorganisation pending, marks and unmarks:
    the tracked forest is well linked and the reported tip is a tracked branch of maximal accumulated work
    among the branches that remain after the marks. -/
theorem C17_fallback_after_load (r0 : Repo) (depth : Int) (hd : 0 ≤ depth) (g : Hdr) (hst : StoreOK r0.store)
    (ops : List FOp) :
    ∃ rl, load r0 depth g = (rl, none) ∧
      (FHist rl ops → ForestOK (ops.foldl applyF rl) ∧ TipMax (ops.foldl applyF rl)) := by
  obtain ⟨rl, hl, hok⟩ := load_sound r0 depth hd g hst
  exact ⟨rl, hl, fun hh => C01_forest_ops ops rl hok.forest ⟨hok.tip, hok.heaviest⟩ hh⟩

/-- **C17 (exclusion) from any loaded state.** Load any consistent storage image in which no hash occurs twice;
    run any forest history (submissions with automatic cleans, Cleans/Saves with no reorganisation pending, marks,
    unmarks); then mark a header — whether or not its hash is already in the invalid list (a configured hash gets
    there on Load while the header may be in the image) —: if the mark succeeds, the chain of NO tracked branch —
    in particular the reported best chain — passes through the marked header at any height, so neither it
    nor anything built on it is reported as part of a chain. -/
theorem C17_marked_excluded_after_load (r0 : Repo) (depth : Int) (hd : 0 ≤ depth) (g : Hdr) (hst : StoreOK r0.store)
    (hu : StoreUniq r0.store) (ops : List FOp) (id : Nat) :
    ∃ rl, load r0 depth g = (rl, none) ∧
      (FHist rl ops → (markInvalid (ops.foldl applyF rl) id).2 = none →
        ∀ bi ∈ (markInvalid (ops.foldl applyF rl) id).1.branches, ∀ (h : Int) (d : HData),
          (markInvalid (ops.foldl applyF rl) id).1.at bi h = some d → d.hdr.id ≠ id) := by
  obtain ⟨rl, hl, hok⟩ := load_sound r0 depth hd g hst
  refine ⟨rl, hl, fun hh hs => ?_⟩
  have hi0 := load_idOK r0 depth g rl hok hl hu
  obtain ⟨hf, hi⟩ := idOK_forest_ops ops rl hok.forest ⟨hok.tip, hok.heaviest⟩ hi0 hh
  exact markInvalid_chain_excludes _ hf hi id hs

/-- the executable tests of the two hypotheses are sound (the driver evaluates them on every loaded image). -/
theorem C17_image_tests_sound (s : Store) (h1 : storeOKb s = true) (h2 : storeUniqB s = true) : StoreOK s ∧ StoreUniq s :=
  ⟨storeOKb_sound s h1, storeUniqB_sound s h2⟩

/-! non-vacuity of the loaded-state theorems: the image a Save of the forked repository `exFork` (Props/C12) wrote
    passes both executable tests; on the repository loaded from it a submission, a mark on the best chain and an
    unmark form a history in the sense of `FHist`; the mark succeeds and the tip falls back. -/
def exGenesisHdr : Hdr := { id := 0, prev := 99, bits := 0x1d00ffff, time := 1 }
def exLoaded : Repo := (load (save exFork).1 10 exGenesisHdr).1
def exH20 : Hdr := { id := 20, prev := 4, bits := 0x1d00ffff, time := 6 }

example : storeOKb (save exFork).1.store = true ∧ storeUniqB (save exFork).1.store = true := by decide

example : FHist exLoaded [.submit exH20 true, .mark 3, .unmark 3] :=
  ⟨⟨by decide, fun hne => absurd (by rfl) hne⟩,
   ⟨Option.isNone_iff_eq_none.mp (by decide), ⟨trivial, trivial⟩⟩⟩

example : tipId ([FOp.submit exH20 true].foldl applyF exLoaded) = 20 ∧
    tipId ([FOp.submit exH20 true, .mark 3].foldl applyF exLoaded) = 2 := by decide

end BRV.Repo
