/-
C01 — The reported chain is the most-proof-of-work chain of accepted headers.

What is proved here, for every repository state and every header:
* `Longest()` returns a branch of maximal last accumulated work (Proofs/Longest.lean);
* `TipMax` ("the reported tip has maximal accumulated work among all branch tips") is an inductive
  invariant of `ProcessHeader`: it holds initially and is preserved by every submission that does
  not trigger the automatic clean — whatever the verdict, except the internal error
  "send branch update" (which the repaired `IntersectHash` no longer produces in well-formed
  states; that case is left to the correspondence + monitor);
* an accepted header extends accumulated work by its own block work (so work is strictly monotone
  along a branch and "maximal among branch tips" bounds every header held in a branch).
Histories that START from a Load are covered by `C01_after_load_submissions`: from the repository Load builds
out of ANY consistent storage image (pruned root, side branches in any index order, unlinkable files), every
history of submissions leaves the tip maximal and the best chain a linked chain down to the lowest height
kept in memory (Proofs/LoadSound, Proofs/ForestStep: the order-of-acceptance invariant `Linked`).
Histories with Clean/Save in the middle are covered by the correspondence (model = code on every generated
history) and the monitor; the invariant across consolidation is not yet a theorem (`_partial`).
-/
import BRV.Proofs.Longest
import BRV.Proofs.RepoWF
import BRV.Proofs.RepoWork
import BRV.Proofs.RepoExample
import BRV.Proofs.ForestStep
import BRV.Proofs.ForestClean
import BRV.Proofs.ForestTrim
import BRV.Proofs.LoadIds

namespace BRV.Repo

/-- the reported tip has maximal last accumulated work among the tracked branches. -/
def TipMax (r : Repo) : Prop :=
  r.longest ∈ r.branches ∧
  ∃ wl, lastWork r.arena r.longest = some wl ∧ ∀ b ∈ r.branches, ∃ w, lastWork r.arena b = some w ∧ w ≤ wl

theorem lastWork_set_ne (ar : Arena) (i j : Nat) (b : Branch) (h : i ≠ j) :
    lastWork (ar.set i b) j = lastWork ar j := by
  unfold lastWork
  rw [List.getElem?_set_ne h]

theorem lastWork_append_old (ar : Arena) (b : Branch) (j : Nat) (h : j < ar.length) :
    lastWork (ar ++ [b]) j = lastWork ar j := by
  unfold lastWork
  rw [List.getElem?_append_left h]

theorem lastWork_lt_length (ar : Arena) (j : Nat) (w : Nat) (h : lastWork ar j = some w) : j < ar.length := by
  unfold lastWork at h
  by_cases hj : j < ar.length
  · exact hj
  · rw [List.getElem?_eq_none (by omega)] at h; simp at h

/-- the tip the repository reports after `longest := Longest()`. -/
theorem tipMax_of_longestOf (r : Repo) (lg : Nat) (h : longestOf r.arena r.branches = some lg) :
    TipMax { r with longest := lg } := by
  obtain ⟨h1, wl, h2, h3⟩ := longestOf_spec _ _ _ h
  exact ⟨h1, wl, h2, h3⟩

/-- **C01 (the tip is switched to a maximal-work branch).** Whenever `ProcessHeader` re-selects the
    longest branch and goes on, the reported tip has maximal accumulated work among all branches. -/
theorem C01_reselect_maximal (r1 r2 : Repo) (sent : Bool) (evs : List Hdr)
    (h : reselect r1 = .ok (r2, sent, evs)) : TipMax r2 := by
  unfold reselect at h
  cases hl : longestOf r1.arena r1.branches with
  | none => rw [hl] at h; cases h
  | some lg =>
    rw [hl] at h
    simp only at h
    by_cases hsame : lg = r1.longest
    · simp only [hsame, ne_eq, not_true_eq_false, ↓reduceIte, Except.ok.injEq, Prod.mk.injEq] at h
      obtain ⟨rfl, _, _⟩ := h
      have := tipMax_of_longestOf r1 lg hl
      rw [hsame] at this
      exact this
    · simp only [hsame, ne_eq, not_false_eq_true, ↓reduceIte] at h
      generalize sendBranchUpdate r1 lg r1.longest = sres at h
      obtain ⟨evs', e⟩ := sres
      cases e with
      | some e => cases h
      | none =>
        simp only [Except.ok.injEq, Prod.mk.injEq] at h
        obtain ⟨rfl, _, _⟩ := h
        exact tipMax_of_longestOf r1 lg hl

theorem newBranch_error_ne_ok (r : Repo) (p : Option Nat) (ph : Int) (h : Hdr)
    (hv : newBranch r p ph h = .error .ok) : False := by
  unfold newBranch at hv
  cases p with
  | none =>
    simp only at hv
    cases hw : Work.blockWork h.bits <;> rw [hw] at hv <;> cases hv
  | some p =>
    simp only at hv
    cases hat : r.at p ph with
    | none => rw [hat] at hv; cases hv
    | some l =>
      rw [hat] at hv
      simp only at hv
      by_cases hne : l.hdr.id = h.prev
      · simp only [hne, ne_eq, not_true_eq_false, ↓reduceIte] at hv
        cases hw : Work.blockWork h.bits <;> rw [hw] at hv <;> cases hv
      · simp only [ne_eq, hne, not_false_eq_true, ↓reduceIte] at hv; cases hv

/-- **C01, new-branch path.** If `ProcessHeader` started a new branch and answered ok, the
    reported tip is a branch of maximal accumulated work. -/
theorem C01_fork_path (r : Repo) (h : Hdr) (pb : Nat) (ph : Int)
    (hok : (forkHeader r h pb ph).2.verdict = .ok) : TipMax (forkHeader r h pb ph).1 := by
  unfold forkHeader at hok ⊢
  cases hnb : newBranch r (some pb) ph h with
  | error v =>
    rw [hnb] at hok
    simp only at hok
    subst hok
    exact absurd hnb (fun hc => newBranch_error_ne_ok _ _ _ _ hc)
  | ok nb =>
    rw [hnb] at hok
    simp only at hok ⊢
    generalize hr : reselect _ = res at hok ⊢
    cases res with
    | error x =>
      -- the early return carries a panic / internal error verdict, never ok
      simp only at hok
      unfold reselect at hr
      split at hr
      · simp only [Except.error.injEq] at hr; subst hr; cases hok
      · split at hr
        · split at hr
          · simp only [Except.error.injEq] at hr; subst hr; cases hok
          · cases hr
        · cases hr
    | ok y =>
      obtain ⟨r2, sent, evs⟩ := y
      exact C01_reselect_maximal _ r2 sent evs hr

theorem reselect_arena (r1 r2 : Repo) (sent : Bool) (evs : List Hdr) (h : reselect r1 = .ok (r2, sent, evs)) :
    r2.arena = r1.arena := by
  unfold reselect at h
  split at h
  · cases h
  · split at h
    · split at h
      · cases h
      · simp only [Except.ok.injEq, Prod.mk.injEq] at h; rw [← h.1]
    · simp only [Except.ok.injEq, Prod.mk.injEq] at h; rw [← h.1]

/-- **C01, extension of a branch other than the longest** (when the extended branch's new height
    is not a multiple of the automatic-clean period). -/
theorem C01_extend_other (r : Repo) (h : Hdr) (pb : Nat) (ph : Int) (lst : HData) (w : Nat)
    (hw : Work.blockWork h.bits = some w) (hne : pb ≠ r.longest)
    (hok : (extendHeader r h pb ph lst).2.verdict = .ok)
    (hnc : Int.tmod ((addToBranch r h pb ph lst w).br pb).height (Facts.autoCleanModulus : Int) ≠ 0) :
    TipMax (extendHeader r h pb ph lst).1 := by
  unfold extendHeader at hok ⊢
  rw [hw] at hok ⊢
  simp only at hok ⊢
  have hl : (addToBranch r h pb ph lst w).longest = r.longest := rfl
  simp only [hl, hne, ne_eq, not_false_eq_true, ↓reduceIte] at hok ⊢
  generalize hr : reselect _ = res at hok ⊢
  cases res with
  | error x =>
    simp only at hok
    unfold reselect at hr
    split at hr
    · simp only [Except.error.injEq] at hr; subst hr; cases hok
    · split at hr
      · split at hr
        · simp only [Except.error.injEq] at hr; subst hr; cases hok
        · cases hr
      · cases hr
  | ok y =>
    obtain ⟨r2, sent, evs⟩ := y
    have hmax := C01_reselect_maximal _ r2 sent evs hr
    have har := reselect_arena _ r2 sent evs hr
    simp only
    split
    · split
      · rename_i hc
        have : (r2.br pb) = ((addToBranch r h pb ph lst w).br pb) := by unfold Repo.br; rw [har]
        rw [this] at hc
        exact absurd hc hnc
      · exact hmax
    · exact hmax

/-- **C01 (extending a branch adds the block's work).** -/
theorem C01_add_increases_work (r : Repo) (h : Hdr) (pb : Nat) (ph : Int) (lst : HData) (w : Nat)
    (hpb : pb < r.arena.length) :
    lastWork (addToBranch r h pb ph lst w).arena pb = some (lst.work + w) := by
  unfold lastWork addToBranch Repo.setBranch
  simp only [List.getElem?_set_self hpb, Option.bind_some, Branch.last?, List.getLast?_append, List.getLast?_singleton,
    Option.some_or, Option.map_some]

/-- **C01, extension of the longest branch.** The tip stays maximal: its work grows by the block's
    work (≥ 1) and no other branch changes. -/
theorem C01_extend_longest (r : Repo) (h : Hdr) (ph : Int) (lst : HData) (w : Nat)
    (hmax : TipMax r) (hlast : lastWork r.arena r.longest = some lst.work) :
    TipMax (addToBranch r h r.longest ph lst w) := by
  obtain ⟨hmem, wl, hwl, hall⟩ := hmax
  have hlen : r.longest < r.arena.length := lastWork_lt_length _ _ _ hwl
  have hnew := C01_add_increases_work r h r.longest ph lst w hlen
  rw [hwl] at hlast
  simp only [Option.some.injEq] at hlast
  refine ⟨hmem, lst.work + w, hnew, ?_⟩
  intro b hb
  by_cases hbl : b = r.longest
  · subst hbl; exact ⟨lst.work + w, hnew, Nat.le_refl _⟩
  · obtain ⟨wb, h1, h2⟩ := hall b hb
    refine ⟨wb, ?_, by omega⟩
    show lastWork ((r.arena.set r.longest _)) b = some wb
    rw [lastWork_set_ne _ _ _ _ (fun hc => hbl hc.symm)]
    exact h1

theorem newBranch_error_cases (r : Repo) (p : Option Nat) (ph : Int) (h : Hdr) (v : Verdict)
    (hv : newBranch r p ph h = .error v) : (∃ m, v = .err m) ∨ (∃ m, v = .panic m) := by
  unfold newBranch at hv
  cases p with
  | none =>
    simp only at hv
    cases hw : Work.blockWork h.bits <;> rw [hw] at hv
    · simp only [Except.error.injEq] at hv; exact Or.inr ⟨_, hv.symm⟩
    · cases hv
  | some p =>
    simp only at hv
    cases hat : r.at p ph with
    | none => rw [hat] at hv; simp only [Except.error.injEq] at hv; exact Or.inl ⟨_, hv.symm⟩
    | some l =>
      rw [hat] at hv
      simp only at hv
      by_cases hne : l.hdr.id = h.prev
      · simp only [hne, ne_eq, not_true_eq_false, ↓reduceIte] at hv
        cases hw : Work.blockWork h.bits <;> rw [hw] at hv
        · simp only [Except.error.injEq] at hv; exact Or.inr ⟨_, hv.symm⟩
        · cases hv
      · simp only [ne_eq, hne, not_false_eq_true, ↓reduceIte, Except.error.injEq] at hv
        exact Or.inl ⟨_, hv.symm⟩

/-- the new-branch path only ever answers ok, an internal error or a crash. -/
theorem forkHeader_verdict_cases (r : Repo) (h : Hdr) (pb : Nat) (ph : Int) :
    (forkHeader r h pb ph).2.verdict = .ok ∨ (∃ m, (forkHeader r h pb ph).2.verdict = .err m) ∨
    (∃ m, (forkHeader r h pb ph).2.verdict = .panic m) := by
  unfold forkHeader
  cases hnb : newBranch r (some pb) ph h with
  | error v =>
    simp only
    rcases newBranch_error_cases _ _ _ _ _ hnb with ⟨m, rfl⟩ | ⟨m, rfl⟩
    · exact Or.inr (Or.inl ⟨m, rfl⟩)
    · exact Or.inr (Or.inr ⟨m, rfl⟩)
  | ok nb =>
    simp only
    generalize hr : reselect _ = res
    cases res with
    | error x =>
      simp only
      unfold reselect at hr
      split at hr
      · simp only [Except.error.injEq] at hr; subst hr; exact Or.inr (Or.inr ⟨_, rfl⟩)
      · split at hr
        · split at hr
          · simp only [Except.error.injEq] at hr; subst hr; exact Or.inr (Or.inl ⟨_, rfl⟩)
          · cases hr
        · cases hr
    | ok y =>
      obtain ⟨r2, sent, evs⟩ := y
      exact Or.inl rfl

/-- the verdicts after which the tip must be a maximal-work branch: everything except the internal
    error of the branch update and a crash. -/
def Verdict.settled : Verdict → Bool
  | .err _ => false
  | .panic _ => false
  | _ => true

/-- **C01 (maximal tip is an invariant of ProcessHeader).** From any state whose tip is maximal, one
    submission — whatever header, whatever verdict among accepted / already known / refused —
    leaves the tip maximal, provided the submission does not trigger the automatic clean, i.e. the
    extended branch's new height is not a multiple of the period (the clean's effect is C10's). -/
theorem C01_tipmax_step (r : Repo) (h : Hdr) (ok : Bool) (hmax : TipMax r)
    (hset : (processHeader r h ok).2.verdict.settled = true)
    (hnc : ∀ pb ph lst, precheck r h ok = .inr (pb, ph, lst) →
      Int.tmod ((r.br pb).height + 1) (Facts.autoCleanModulus : Int) ≠ 0) :
    TipMax (processHeader r h ok).1 := by
  cases hpc : precheck r h ok with
  | inl v => rw [processHeader_of_inl r h ok v hpc]; exact hmax
  | inr x =>
    obtain ⟨pb, ph, lst⟩ := x
    have hpass := precheck_inr r h ok pb ph lst hpc
    rw [processHeader_of_inr r h ok pb ph lst hpc] at hset ⊢
    unfold applyHeader at hset ⊢
    by_cases hfork : lst.hdr.id ≠ h.prev
    · simp only [hfork, ne_eq, not_false_eq_true, ↓reduceIte] at hset ⊢
      rcases forkHeader_verdict_cases r h pb ph with hv | ⟨m, hv⟩ | ⟨m, hv⟩
      · exact C01_fork_path r h pb ph hv
      · rw [hv] at hset; cases hset
      · rw [hv] at hset; cases hset
    · simp only [hfork, ↓reduceIte] at hset ⊢
      unfold extendHeader at hset ⊢
      cases hw : Work.blockWork h.bits with
      | none => simp only [hw] at hset; cases hset
      | some w =>
        simp only [hw] at hset ⊢
        have hl : (addToBranch r h pb ph lst w).longest = r.longest := rfl
        by_cases hpl : pb = r.longest
        · subst hpl
          simp only [hl, ne_eq, not_true_eq_false, ↓reduceIte]
          have hlw : lastWork r.arena r.longest = some lst.work := by
            have := hpass.lastIs
            unfold Repo.lastOf Repo.br Branch.last? at this
            unfold lastWork
            obtain ⟨hmem, wl, hwl, _⟩ := hmax
            have hlen := lastWork_lt_length _ _ _ hwl
            rw [List.getElem?_eq_getElem hlen] at this ⊢
            simp only [Option.getD_some, Option.bind_some, Branch.last?] at this ⊢
            rw [this]; rfl
          have := C01_extend_longest r h ph lst w hmax hlw
          split
          · rename_i hc
            rw [addToBranch_height r h _ ph lst w hpass.lastIs] at hc
            exact absurd hc (hnc _ ph lst hpc)
          · exact this
        · have := C01_extend_other r h pb ph lst w hw hpl
          unfold extendHeader at this
          rw [hw] at this
          simp only [hl, hpl, ne_eq, not_false_eq_true, ↓reduceIte] at this hset ⊢
          apply this
          · -- the verdict is ok: settled and produced by this path
            generalize hr : reselect _ = res at hset ⊢
            cases res with
            | error x =>
              simp only at hset ⊢
              unfold reselect at hr
              split at hr
              · simp only [Except.error.injEq] at hr; subst hr; cases hset
              · split at hr
                · split at hr
                  · simp only [Except.error.injEq] at hr; subst hr; cases hset
                  · cases hr
                · cases hr
            | ok y =>
              obtain ⟨r2, sent, evs⟩ := y
              simp only
              split <;> rfl
          · rw [addToBranch_height r h pb ph lst w hpass.lastIs]; exact hnc pb ph lst hpc
/-- no submission of the history triggers the automatic clean or ends in the internal
    branch-update error / a crash (each checked at the state it is submitted to). -/
def Quiet : Repo → List (Hdr × Bool) → Prop
  | _, [] => True
  | r, x :: xs =>
    (processHeader r x.1 x.2).2.verdict.settled = true ∧
    (∀ pb ph lst, precheck r x.1 x.2 = .inr (pb, ph, lst) →
      Int.tmod ((r.br pb).height + 1) (Facts.autoCleanModulus : Int) ≠ 0) ∧
    Quiet (processHeader r x.1 x.2).1 xs

/-- **C01 (sentence 1, submission histories).** After ANY finite history of header submissions —
    any tree shape, duplicates, orphans, refused headers, forks overtaking one another any number of
    times — starting from a state whose tip is maximal (e.g. the genesis-only repository), the
    reported tip has maximal accumulated work among all tracked branch tips. (Histories with
    Clean/Save/Load: see the file header.) -/
theorem C01_tip_maximal_submissions (r : Repo) (hs : List (Hdr × Bool)) (h0 : TipMax r) (hq : Quiet r hs) :
    TipMax (submitAll r hs) := by
  induction hs generalizing r with
  | nil => exact h0
  | cons x xs ih =>
    obtain ⟨h1, h2, h3⟩ := hq
    simp only [submitAll, List.foldl_cons]
    exact ih _ (C01_tipmax_step r x.1 x.2 h0 h1 h2) h3

/-- **C01 (sentence 2, submission histories): the reported headers are the tip's ancestry.** After
    ANY finite history of submissions from a well-linked state (e.g. genesis only) — whatever the
    verdicts, including the internal-error ones —, whenever the best chain's headers at heights
    `k` and `k − 1` are held, the header at `k` names the header at `k − 1` as its previous block:
    `Header(k).PrevBlock = Hash(k − 1)`, across branch boundaries of forks of forks included. -/
theorem C01_chain_linked_submissions (r : Repo) (hs : List (Hdr × Bool)) (hw : LinkWF r.arena)
    (hq : NoAutoClean r hs) (k : Int) (a b : HData)
    (ha : (submitAll r hs).at (submitAll r hs).longest k = some a)
    (hb : (submitAll r hs).at (submitAll r hs).longest (k - 1) = some b) :
    a.hdr.prev = b.hdr.id := by
  have hw' := linkWF_submitAll r hs hw hq
  have hlen : (submitAll r hs).longest < (submitAll r hs).arena.length := atHeight_some_lt _ _ _ _ _ ha
  rw [Repo.at_eq_atH _ hw'.dec _ hlen] at ha hb
  exact atH_linked _ hw' _ k a b ha hb

/-- the same for ANY tracked branch (side branches are linked chains down to genesis too). -/
theorem C01_every_branch_linked (r : Repo) (hs : List (Hdr × Bool)) (hw : LinkWF r.arena)
    (hq : NoAutoClean r hs) (bi : Nat) (k : Int) (a b : HData)
    (ha : (submitAll r hs).at bi k = some a) (hb : (submitAll r hs).at bi (k - 1) = some b) :
    a.hdr.prev = b.hdr.id := by
  have hw' := linkWF_submitAll r hs hw hq
  have hlen : bi < (submitAll r hs).arena.length := atHeight_some_lt _ _ _ _ _ ha
  rw [Repo.at_eq_atH _ hw'.dec _ hlen] at ha hb
  exact atH_linked _ hw' _ k a b ha hb

/-- what `Header(k)` / `Hash(k)` return while the height is held in memory is that lookup. -/
theorem C01_headerAt_in_memory (r : Repo) (k : Int) (d : HData) (hk : k ≤ (r.br r.longest).height)
    (hd : r.at r.longest k = some d) : headerAt r k = .ok d.hdr := by
  unfold headerAt
  have : ¬ (k > (r.br r.longest).height) := by omega
  simp only [this, ↓reduceIte, hd]

/-! ### accumulated work is cumulative work; the tip dominates every held header -/

/-- **C01 (the reported work is cumulative work).** In every state reached by submissions, along the
    ancestry of any branch (in particular the reported chain) the accumulated work recorded at height
    `k` is the one recorded at `k − 1` plus the block work of the header at `k`, which is at least 1:
    `AccumulatedWork` is the sum of the block works from genesis, strictly increasing with height. -/
theorem C01_work_is_cumulative (r : Repo) (hs : List (Hdr × Bool)) (hw : LinkWF r.arena) (hwk : WorkWF r.arena)
    (hq : NoAutoClean r hs) (bi : Nat) (k : Int) (a b : HData)
    (ha : (submitAll r hs).at bi k = some a) (hb : (submitAll r hs).at bi (k - 1) = some b) :
    ∃ w, Work.blockWork a.hdr.bits = some w ∧ a.work = b.work + w ∧ 1 ≤ w := by
  have hw' := linkWF_submitAll r hs hw hq
  have hwk' := workWF_submitAll r hs hw hwk hq
  have hlen : bi < (submitAll r hs).arena.length := atHeight_some_lt _ _ _ _ _ ha
  rw [Repo.at_eq_atH _ hw'.dec _ hlen] at ha hb
  exact atH_work_step _ hw' hwk' bi k a b ha hb

/-- **C01 (maximal among ALL held headers, not only tips).** When the tip is maximal among the branch
    tips and the work bookkeeping is exact, no header held by any tracked branch carries more
    accumulated work than the reported tip. -/
theorem C01_tip_dominates_every_header (r : Repo) (hmax : TipMax r) (hwk : WorkWF r.arena)
    (hi : IdWF r.arena r.branches) (bi : Nat) (b : Branch) (k : Nat) (d : HData)
    (hb : r.arena[bi]? = some b) (hk : b.headers[k]? = some d) :
    ∃ wl, lastWork r.arena r.longest = some wl ∧ d.work ≤ wl := by
  obtain ⟨_, wl, hwl, hall⟩ := hmax
  refine ⟨wl, hwl, ?_⟩
  have hmem := hi.listed bi (getElem?_lt _ _ _ hb)
  obtain ⟨w, hlw, hle⟩ := hall bi hmem
  unfold lastWork at hlw
  rw [hb] at hlw
  simp only [Option.bind_some, Option.map_eq_some_iff] at hlw
  obtain ⟨l, hl, hlwk⟩ := hlw
  have := work_le_tip r.arena hwk bi b hb k d l hk hl
  omega

/-- **C01 (submission histories, all held headers).** After ANY finite history of submissions from
    a well-formed state with a maximal tip (e.g. genesis only), every header any tracked branch holds
    has accumulated work at most the reported `AccumulatedWork`. -/
theorem C01_tip_dominates_submissions (r : Repo) (hs : List (Hdr × Bool)) (h0 : TipMax r) (hwf : RepoWF r)
    (hwk : WorkWF r.arena) (hq : Quiet r hs) (hq' : NoAutoClean r hs)
    (bi : Nat) (b : Branch) (k : Nat) (d : HData)
    (hb : (submitAll r hs).arena[bi]? = some b) (hk : b.headers[k]? = some d) :
    ∃ wl, lastWork (submitAll r hs).arena (submitAll r hs).longest = some wl ∧ d.work ≤ wl :=
  C01_tip_dominates_every_header _ (C01_tip_maximal_submissions r hs h0 hq)
    (workWF_submitAll r hs hwf.link hwk hq') (repoWF_submitAll r hs hwf hq').ids bi b k d hb hk

/-! ### without any assumption on the verdicts -/

/-- one submission keeps the tip maximal in every state reached by submissions: the internal error
    and crash outcomes excluded by `C01_tipmax_step` cannot occur there (`passed_verdict_ok`). -/
theorem C01_tipmax_step_wf (r : Repo) (h : Hdr) (ok : Bool) (hmax : TipMax r) (hs : StreamWF r)
    (hlv : r.longest < r.arena.length)
    (hnc : ∀ pb ph lst, precheck r h ok = .inr (pb, ph, lst) →
      Int.tmod ((r.br pb).height + 1) (Facts.autoCleanModulus : Int) ≠ 0) :
    TipMax (processHeader r h ok).1 := by
  cases hpc : precheck r h ok with
  | inl v => rw [processHeader_of_inl r h ok v hpc]; exact hmax
  | inr x =>
    obtain ⟨pb, ph, lst⟩ := x
    have hv := passed_verdict_ok r h ok hs hlv hnc pb ph lst hpc
    exact C01_tipmax_step r h ok hmax (by rw [hv]; rfl) hnc

/-- **C01 (sentences 1 and 3, submission histories, no assumption on verdicts).** From the
    genesis-only repository (or any well-formed state with a maximal tip), after ANY finite history
    of submissions in which the automatic clean is not due, the reported tip has maximal accumulated
    work among all tracked branch tips — no submission can end in an error that leaves a heavier
    accepted chain unreported, because no submission ends in an internal error at all. -/
theorem C01_tip_maximal_wf (r : Repo) (hs : List (Hdr × Bool)) (h0 : TipMax r) (hwf : StreamWF r)
    (hlv : r.longest < r.arena.length) (hq : NoAutoClean r hs) : TipMax (submitAll r hs) := by
  induction hs generalizing r with
  | nil => exact h0
  | cons x xs ih =>
    obtain ⟨h1, h2⟩ := hq
    simp only [submitAll, List.foldl_cons]
    exact ih _ (C01_tipmax_step_wf r x.1 x.2 h0 hwf hlv h1) (streamWF_processHeader r x.1 x.2 hwf h1)
      (longestValid_processHeader r x.1 x.2 hwf hlv h1) h2

/-- and it dominates every header any tracked branch holds. -/
theorem C01_tip_dominates_wf (r : Repo) (hs : List (Hdr × Bool)) (h0 : TipMax r) (hwf : StreamWF r)
    (hwk : WorkWF r.arena) (hlv : r.longest < r.arena.length) (hq : NoAutoClean r hs)
    (bi : Nat) (b : Branch) (k : Nat) (d : HData)
    (hb : (submitAll r hs).arena[bi]? = some b) (hk : b.headers[k]? = some d) :
    ∃ wl, lastWork (submitAll r hs).arena (submitAll r hs).longest = some wl ∧ d.work ≤ wl :=
  C01_tip_dominates_every_header _ (C01_tip_maximal_wf r hs h0 hwf hlv hq)
    (workWF_submitAll r hs hwf.chain.wf.link hwk hq) (repoWF_submitAll r hs hwf.chain.wf hq).ids bi b k d hb hk

/-! ### the extracted shapes the model relies on -/

/-- `ProcessHeader` and every reader hold the repository mutex for their whole body, so concurrent
    peers produce some sequential history (all of which the theorems quantify over). -/
theorem C01_lock_shapes :
    (Facts.lockShapes.filter (fun e => e.1 ∈ ["headers.Repository.ProcessHeader", "headers.Repository.Height",
      "headers.Repository.LastHash", "headers.Repository.AccumulatedWork", "headers.Repository.Hash",
      "headers.Repository.Header", "headers.Repository.Clean", "headers.Repository.Save", "headers.Repository.Load"])).map (·.2)
      = List.replicate 9 "lock-defer" := by decide

/-! ### non-vacuity -/

def exRepoC01 : Repo :=
  { arena := [{ parent := none, parentHeight := -1, first := { id := 0, prev := 99, bits := 0x1d00ffff, time := 1 },
                offset := 1, headers := [{ hdr := { id := 0, prev := 99, bits := 0x1d00ffff, time := 1 }, work := 4295032833 }],
                hmap := [(0, 0)] }],
    branches := [0], longest := 0, heights := [(0, 0)], disableDifficulty := true }

example : LinkWF exRepoC01.arena :=
  linkWF_single _ rfl rfl { hdr := { id := 0, prev := 99, bits := 0x1d00ffff, time := 1 }, work := 4295032833 } rfl rfl

example : TipMax exRepoC01 := by
  refine ⟨by decide, 4295032833, by decide, ?_⟩
  intro b hb
  have : b = 0 := by simpa [exRepoC01] using hb
  subst this
  exact ⟨4295032833, by decide, Nat.le_refl _⟩

example : (applyHeader exRepoC01 { id := 1, prev := 0, bits := 0x1d00ffff, time := 2 } 0 0
    { hdr := { id := 0, prev := 99, bits := 0x1d00ffff, time := 1 }, work := 4295032833 }).2.verdict = .ok := by decide
example : Quiet exRepoC01 [({ id := 1, prev := 0, bits := 0x1d00ffff, time := 2 }, true), ({ id := 2, prev := 0, bits := 0x1c00ffff, time := 2 }, true)] := by
  refine ⟨by decide, ?_, by decide, ?_, trivial⟩
  · intro pb ph lst hp
    have : precheck exRepoC01 { id := 1, prev := 0, bits := 0x1d00ffff, time := 2 } true
        = .inr (0, 0, { hdr := { id := 0, prev := 99, bits := 0x1d00ffff, time := 1 }, work := 4295032833 }) := by decide
    rw [this] at hp
    simp only [Sum.inr.injEq, Prod.mk.injEq] at hp
    obtain ⟨rfl, rfl, rfl⟩ := hp
    decide
  · intro pb ph lst hp
    have : precheck (processHeader exRepoC01 { id := 1, prev := 0, bits := 0x1d00ffff, time := 2 } true).1
        { id := 2, prev := 0, bits := 0x1c00ffff, time := 2 } true
        = .inr (0, 0, { hdr := { id := 1, prev := 0, bits := 0x1d00ffff, time := 2 }, work := 8590065666 }) := by decide
    rw [this] at hp
    simp only [Sum.inr.injEq, Prod.mk.injEq] at hp
    obtain ⟨rfl, rfl, rfl⟩ := hp
    decide

example : TipMax (processHeader exRepoC01 { id := 1, prev := 0, bits := 0x1d00ffff, time := 2 } true).1 := by
  refine ⟨by decide, 8590065666, by decide, ?_⟩
  intro b hb
  have : b = 0 := by
    have : (processHeader exRepoC01 { id := 1, prev := 0, bits := 0x1d00ffff, time := 2 } true).1.branches = [0] := by decide
    rw [this] at hb; simpa using hb
  subst this
  exact ⟨8590065666, by decide, Nat.le_refl _⟩

/-- the genesis-only repository has exact work bookkeeping (hypothesis of the work theorems). -/
theorem genesis_workWF : WorkWF genesisRepo.arena := by
  intro bi b hb
  obtain ⟨rfl, rfl⟩ := genesisRepo_get bi b hb
  refine ⟨?_, ?_, ?_⟩
  · intro k d e hk hk1; simp [genesisRepo] at hk1
  · intro p d hpar; simp [genesisRepo] at hpar
  · intro d _ h0
    simp only [genesisRepo, List.getElem_cons_zero, List.getElem?_cons_zero, Option.some.injEq] at h0
    subst h0; decide

example : exRepoC01 = genesisRepo := rfl

theorem quiet_noAutoClean (hs : List (Hdr × Bool)) : ∀ r, Quiet r hs → NoAutoClean r hs := by
  induction hs with
  | nil => intro r _; trivial
  | cons x xs ih => intro r hq; exact ⟨hq.2.1, ih _ hq.2.2⟩

/-- **C01 for histories that start from a Load.** Whatever storage image Load read — any number of side
    branches, any index order, a root pruned to the load depth, stale files —, as long as the image is
    consistent (`StoreOK`, Proofs/LoadSound), after ANY history of submissions on the loaded repository (no
    automatic clean due, no internal error): the reported tip is a tracked branch of maximal accumulated
    work, and the best chain is defined from the lowest height the root keeps in memory up to the tip, each
    header naming the one below it as its previous block. -/
theorem C01_after_load_submissions (r0 : Repo) (depth : Int) (hd : 0 ≤ depth) (g : Hdr) (hst : StoreOK r0.store)
    (subs : List (Hdr × Bool)) :
    ∃ rl, load r0 depth g = (rl, none) ∧
      (Quiet rl subs →
        TipMax (submitAll rl subs) ∧
        ∃ lo : Int, 0 ≤ lo ∧
          (∀ x, lo ≤ x → x ≤ tipHeight (submitAll rl subs) →
            ∃ d, (submitAll rl subs).at (submitAll rl subs).longest x = some d) ∧
          (∀ x d d', (submitAll rl subs).at (submitAll rl subs).longest x = some d →
            (submitAll rl subs).at (submitAll rl subs).longest (x - 1) = some d' → d.hdr.prev = d'.hdr.id)) := by
  obtain ⟨rl, hl, hok⟩ := load_sound r0 depth hd g hst
  refine ⟨rl, hl, fun hq => ?_⟩
  have htm : TipMax (submitAll rl subs) := C01_tip_maximal_submissions rl subs ⟨hok.tip, hok.heaviest⟩ hq
  have hf := forestOK_submitAll subs rl hok.forest (quiet_noAutoClean subs rl hq)
  obtain ⟨lo, h0, _, hcov, hlk⟩ := forest_best_chain _ hf htm.1
  exact ⟨htm, lo, h0, hcov, hlk⟩

/-- the pre-clean state of a submission has a maximal tip (no hypothesis about the automatic clean). -/
theorem tipMax_midState (r : Repo) (h : Hdr) (ok : Bool) (hmax : TipMax r)
    (hset : (processHeader r h ok).2.verdict.settled = true) : TipMax (midState r h ok) := by
  unfold midState
  cases hpc : precheck r h ok with
  | inl v => exact hmax
  | inr x =>
    obtain ⟨pb, ph, lst⟩ := x
    have hpass := precheck_inr r h ok pb ph lst hpc
    rw [processHeader_of_inr r h ok pb ph lst hpc] at hset
    unfold applyHeader at hset
    simp only
    by_cases hfork : lst.hdr.id ≠ h.prev
    · rw [if_pos hfork]
      simp only [hfork, ne_eq, not_false_eq_true, ↓reduceIte] at hset
      rcases forkHeader_verdict_cases r h pb ph with hv | ⟨m, hv⟩ | ⟨m, hv⟩
      · exact C01_fork_path r h pb ph hv
      · rw [hv] at hset; cases hset
      · rw [hv] at hset; cases hset
    · rw [if_neg hfork]
      simp only [hfork, ↓reduceIte] at hset
      unfold extendHeader at hset
      cases hw : Work.blockWork h.bits with
      | none => exact hmax
      | some w =>
        simp only [hw] at hset ⊢
        have hl : (addToBranch r h pb ph lst w).longest = r.longest := rfl
        by_cases hpl : pb = r.longest
        · subst hpl
          have hnn : ¬ (r.longest ≠ (addToBranch r h r.longest ph lst w).longest) := by rw [hl]; simp
          rw [if_neg hnn]
          have hlw : lastWork r.arena r.longest = some lst.work := by
            have := hpass.lastIs
            unfold Repo.lastOf Repo.br Branch.last? at this
            unfold lastWork
            obtain ⟨hmem, wl, hwl, _⟩ := hmax
            have hlen := lastWork_lt_length _ _ _ hwl
            rw [List.getElem?_eq_getElem hlen] at this ⊢
            simp only [Option.getD_some, Option.bind_some, Branch.last?] at this ⊢
            rw [this]; rfl
          exact C01_extend_longest r h ph lst w hmax hlw
        · have hnn : pb ≠ (addToBranch r h pb ph lst w).longest := by rw [hl]; exact hpl
          rw [if_pos hnn] at hset ⊢
          generalize hr : reselect (addToBranch r h pb ph lst w) = res at hset ⊢
          cases res with
          | error x =>
            simp only at hset ⊢
            unfold reselect at hr
            split at hr
            · simp only [Except.error.injEq] at hr; subst hr; cases hset
            · split at hr
              · split at hr
                · simp only [Except.error.injEq] at hr; subst hr; cases hset
                · cases hr
              · cases hr
          | ok y =>
            obtain ⟨r2, sent, evs⟩ := y
            exact C01_reselect_maximal _ r2 sent evs hr

/-- **one submission, automatic clean included, keeps the tip maximal** when the clean — if it runs — finds
    the best branch at the head of the list as the root branch (no reorganisation pending). -/
theorem C01_tipmax_step_clean (r : Repo) (h : Hdr) (ok : Bool) (hf : ForestOK r) (hmax : TipMax r)
    (hset : (processHeader r h ok).2.verdict.settled = true) (hc : CleanRootFirst r h ok) :
    TipMax (processHeader r h ok).1 := by
  have hm := tipMax_midState r h ok hmax hset
  have hfm := forestOK_midState r h ok hf
  rcases processHeader_mid r h ok with he | he
  · rw [he]; exact hm
  · by_cases hne : (processHeader r h ok).1 = midState r h ok
    · rw [hne]; exact hm
    · rw [he]
      obtain ⟨_, hb, hl, hw, _, _⟩ := forestOK_cleanWith _ hfm (hc hne) (Facts.pruneDepth : Int) (by decide)
      obtain ⟨hmem, wl, hwl, hall⟩ := hm
      refine ⟨by rw [hb, hl]; exact hmem, wl, by rw [hl, hw _ hmem]; exact hwl, ?_⟩
      intro b hbm
      rw [hb] at hbm
      obtain ⟨wb, h1, h2⟩ := hall b hbm
      exact ⟨wb, by rw [hw b hbm]; exact h1, h2⟩

/-- the history condition of the forest theorems with the automatic clean: no internal error, and whenever
    the automatic clean runs no reorganisation is pending. -/
def QuietClean : Repo → List (Hdr × Bool) → Prop
  | _, [] => True
  | r, x :: xs =>
    (processHeader r x.1 x.2).2.verdict.settled = true ∧ CleanRootFirst r x.1 x.2 ∧
    QuietClean (processHeader r x.1 x.2).1 xs

/-- **C01 for forest histories of any length that start from a Load, automatic cleans included.** From the
    repository Load builds out of any consistent storage image — or from any well-linked state with a maximal
    tip —, after ANY history of submissions (forks, overtakes, of any length, crossing any number of
    automatic cleans as long as none of them runs while a reorganisation is pending): the reported tip is a
    tracked branch of maximal accumulated work and the best chain is defined and linked from the lowest
    height kept in memory to the tip. -/
theorem C01_forest_history_clean (subs : List (Hdr × Bool)) : ∀ (r : Repo), ForestOK r → TipMax r → QuietClean r subs →
    ForestOK (submitAll r subs) ∧ TipMax (submitAll r subs) := by
  induction subs with
  | nil => intro r hf hm _; exact ⟨hf, hm⟩
  | cons x xs ih =>
    intro r hf hm hq
    obtain ⟨h1, h2, h3⟩ := hq
    simp only [submitAll, List.foldl_cons]
    exact ih _ (forestOK_processHeader_clean r x.1 x.2 hf h2) (C01_tipmax_step_clean r x.1 x.2 hf hm h1 h2) h3

theorem C01_after_load_any_length (r0 : Repo) (depth : Int) (hd : 0 ≤ depth) (g : Hdr) (hst : StoreOK r0.store)
    (subs : List (Hdr × Bool)) :
    ∃ rl, load r0 depth g = (rl, none) ∧
      (QuietClean rl subs →
        TipMax (submitAll rl subs) ∧
        ∃ lo : Int, 0 ≤ lo ∧
          (∀ x, lo ≤ x → x ≤ tipHeight (submitAll rl subs) →
            ∃ d, (submitAll rl subs).at (submitAll rl subs).longest x = some d) ∧
          (∀ x d d', (submitAll rl subs).at (submitAll rl subs).longest x = some d →
            (submitAll rl subs).at (submitAll rl subs).longest (x - 1) = some d' → d.hdr.prev = d'.hdr.id)) := by
  obtain ⟨rl, hl, hok⟩ := load_sound r0 depth hd g hst
  refine ⟨rl, hl, fun hq => ?_⟩
  obtain ⟨hf, htm⟩ := C01_forest_history_clean subs rl hok.forest ⟨hok.tip, hok.heaviest⟩ hq
  obtain ⟨lo, h0, _, hcov, hlk⟩ := forest_best_chain _ hf htm.1
  exact ⟨htm, lo, h0, hcov, hlk⟩

theorem genesis_forestOK : ForestOK genesisRepo := by
  refine ⟨?_, ?_, ?_, by decide⟩
  · intro bi hbi
    have : bi = 0 := by simpa [genesisRepo] using hbi
    subst this
    refine ⟨by simp [genesisRepo, Repo.br], trivial, by simp [genesisRepo, Repo.br], by simp [genesisRepo, Repo.br], ?_, ?_⟩
    · intro hne; exact absurd rfl hne
    · intro id h hg
      have hb : (genesisRepo.br 0).hmap = [(0, 0)] := rfl
      rw [hb] at hg
      simp only [HMap.get?, List.lookup] at hg
      split at hg
      · rename_i heq
        simp only [Option.some.injEq] at hg
        subst hg
        refine ⟨{ hdr := { id := 0, prev := 99, bits := 0x1d00ffff, time := 1 }, work := 4295032833 }, rfl, ?_⟩
        have e : id = 0 := by simpa using heq
        exact e.symm
      · cases hg
  · exact Linked.root [] 0 (genesisRepo.br 0) .nil (by simp) rfl rfl rfl
  · intro bi hbi
    have : bi = 0 := by simpa [genesisRepo] using hbi
    subst this; decide

theorem genesis_tipMax : TipMax genesisRepo := by
  refine ⟨by simp [genesisRepo], 4295032833, by decide, ?_⟩
  intro b hb
  have : b = 0 := by simpa [genesisRepo] using hb
  subst this
  exact ⟨4295032833, by decide, Nat.le_refl _⟩

/-- **C01 from genesis for forest histories of any length** (automatic cleans included, none of them while a
    reorganisation is pending): maximal tip, best chain linked down to the lowest height kept in memory. -/
theorem C01_from_genesis_any_length (subs : List (Hdr × Bool)) (hq : QuietClean genesisRepo subs) :
    TipMax (submitAll genesisRepo subs) ∧
    ∃ lo : Int, 0 ≤ lo ∧
      (∀ x, lo ≤ x → x ≤ tipHeight (submitAll genesisRepo subs) →
        ∃ d, (submitAll genesisRepo subs).at (submitAll genesisRepo subs).longest x = some d) ∧
      (∀ x d d', (submitAll genesisRepo subs).at (submitAll genesisRepo subs).longest x = some d →
        (submitAll genesisRepo subs).at (submitAll genesisRepo subs).longest (x - 1) = some d' → d.hdr.prev = d'.hdr.id) := by
  obtain ⟨hf, htm⟩ := C01_forest_history_clean subs genesisRepo genesis_forestOK genesis_tipMax hq
  obtain ⟨lo, h0, _, hcov, hlk⟩ := forest_best_chain _ hf htm.1
  exact ⟨htm, lo, h0, hcov, hlk⟩

/-! ### forest histories with explicit maintenance -/

inductive FOp
  | submit (h : Hdr) (ok : Bool)
  | clean (depth : Int)
  | save
  | mark (id : Nat)
  | unmark (id : Nat)

def applyF (r : Repo) : FOp → Repo
  | .submit h ok => (processHeader r h ok).1
  | .clean d => (cleanWith r d).1
  | .save => (save r).1
  | .mark id => (markInvalid r id).1
  | .unmark id => markNotInvalid r id

/-- the history condition: no internal error; every Clean (explicit or automatic) and every Save runs while
    no reorganisation is pending (the best branch is the root branch heading the list); a mark succeeds. -/
def FHist : Repo → List FOp → Prop
  | _, [] => True
  | r, op :: rest =>
    (match op with
     | .submit h ok => (processHeader r h ok).2.verdict.settled = true ∧ CleanRootFirst r h ok
     | .clean d => 0 ≤ d ∧ RootFirst r
     | .save => RootFirst r
     | .mark id => (markInvalid r id).2 = none
     | .unmark _ => True) ∧
    FHist (applyF r op) rest

theorem tipMax_of_frame (r r' : Repo) (hm : TipMax r) (hb : r'.branches = r.branches) (hl : r'.longest = r.longest)
    (hw : ∀ x ∈ r.branches, lastWork r'.arena x = lastWork r.arena x) : TipMax r' := by
  obtain ⟨hmem, wl, hwl, hall⟩ := hm
  refine ⟨by rw [hb, hl]; exact hmem, wl, by rw [hl, hw _ hmem]; exact hwl, ?_⟩
  intro b hbm
  rw [hb] at hbm
  obtain ⟨wb, h1, h2⟩ := hall b hbm
  exact ⟨wb, by rw [hw b hbm]; exact h1, h2⟩

/-- a successful mark leaves the tip maximal among the branches that remain. -/
theorem tipMax_markInvalid (r : Repo) (hm : TipMax r) (id : Nat) (hs : (markInvalid r id).2 = none) :
    TipMax (markInvalid r id).1 := by
  unfold markInvalid at hs ⊢
  have hm1 : TipMax (markRecord r id) :=
    tipMax_of_frame r _ hm (markRecord_frame r id).2.1 (markRecord_frame r id).2.2
      (fun _ _ => by rw [(markRecord_frame r id).1])
  dsimp only at hs ⊢
  cases hfind : (markRecord r id).branchesFind id with
  | none => exact hm1
  | some x =>
    obtain ⟨bi, h⟩ := x
    rw [hfind] at hs
    simp only at hs ⊢
    cases ht : trim (markRecord r id) bi h with
    | error e => rw [ht] at hs; cases hs
    | ok r2 =>
      rw [ht] at hs
      simp only at hs ⊢
      cases hl : longestOf r2.arena r2.branches with
      | none => rw [hl] at hs; cases hs
      | some lg => exact tipMax_of_longestOf r2 lg hl

/-- **C01 over forest histories with maintenance and marks**: submissions (forks, overtakes, automatic
    cleans), explicit Cleans with any depth and Saves — complete or failed at any stage —, marking headers
    invalid and unmarking them, from any well-linked state with a maximal tip (genesis, or what Load builds
    from any consistent image), of any length: the tracked forest stays well linked and the reported tip is a
    tracked branch of maximal accumulated work among those that remain, as long as every Clean and Save runs
    while no reorganisation is pending. -/
theorem C01_forest_ops (ops : List FOp) : ∀ (r : Repo), ForestOK r → TipMax r → FHist r ops →
    ForestOK (ops.foldl applyF r) ∧ TipMax (ops.foldl applyF r) := by
  induction ops with
  | nil => intro r hf hm _; exact ⟨hf, hm⟩
  | cons op rest ih =>
    intro r hf hm hh
    obtain ⟨hop, hrest⟩ := hh
    simp only [List.foldl_cons]
    cases op with
    | submit h ok =>
      exact ih _ (forestOK_processHeader_clean r h ok hf hop.2) (C01_tipmax_step_clean r h ok hf hm hop.1 hop.2) hrest
    | clean d =>
      obtain ⟨h1, h2, h3, h4, _, _⟩ := forestOK_cleanWith r hf hop.2 d hop.1
      exact ih _ h1 (tipMax_of_frame r _ hm h2 h3 h4) hrest
    | save =>
      obtain ⟨h1, h2, h3⟩ := save_frame_rootFirst r hop
      exact ih _ (forestOK_of_frame r _ hf h1 h2)
        (tipMax_of_frame r _ hm h2 h3 (fun x _ => by show lastWork (save r).1.arena x = _; rw [h1])) hrest
    | mark id =>
      exact ih _ (forestOK_markInvalid r hf id) (tipMax_markInvalid r hm id hop) hrest
    | unmark id =>
      obtain ⟨h1, h2, h3⟩ := markNotInvalid_frame r id
      exact ih _ (forestOK_of_frame r _ hf h1 h2)
        (tipMax_of_frame r _ hm h2 h3 (fun x _ => by show lastWork (markNotInvalid r id).arena x = _; rw [h1])) hrest

/-- the identities (`IdOK`: no hash held twice, complete height maps) survive every forest history. -/
theorem idOK_forest_ops (ops : List FOp) : ∀ (r : Repo), ForestOK r → TipMax r → IdOK r → FHist r ops →
    ForestOK (ops.foldl applyF r) ∧ IdOK (ops.foldl applyF r) := by
  induction ops with
  | nil => intro r hf _ hi _; exact ⟨hf, hi⟩
  | cons op rest ih =>
    intro r hf hm hi hh
    obtain ⟨hop, hrest⟩ := hh
    have hstep := C01_forest_ops [op] r hf hm ⟨hop, trivial⟩
    simp only [List.foldl_cons, List.foldl_nil] at hstep
    simp only [List.foldl_cons]
    refine ih _ hstep.1 hstep.2 ?_ hrest
    cases op with
    | submit h ok => exact idOK_processHeader_clean r h ok hf hi hop.2
    | clean d => exact idOK_cleanWith r hf hi hop.2 d hop.1
    | save =>
      obtain ⟨h1, h2, _⟩ := save_frame_rootFirst r hop
      exact idOK_of_frame r _ hi h1 h2
    | mark id => exact idOK_markInvalid r hf hi id
    | unmark id =>
      obtain ⟨h1, h2, _⟩ := markNotInvalid_frame r id
      exact idOK_of_frame r _ hi h1 h2


end BRV.Repo
