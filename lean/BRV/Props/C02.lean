/-
C02 — Only headers with valid, consensus-exact proof of work are accepted.

Property theorems about the executable model `BRV.Pow` (Model/Pow.lean), which the `pow`
correspondence harness ties to /repo/headers/{proof_of_work,branches,headers}.go and to the pinned
bitcoin package on every run, against the network's rules as transcribed in Spec/DAA.lean.
Helper lemmas: Proofs/PowLemmas.lean, PowRoundTrip.lean, PowWork.lean, PowLegacy.lean.

The model is of the code AFTER repository fixes 192cc38 (guard against the crashing bits) and 04c364b
(work→target inversion, median tie order, signed time span, stricter bits guard). Before them the
property was false in four ways; the formulas of the old code are kept in Proofs/PowLegacy.lean and
the last section proves, with kernel-checked witnesses, exactly where they differed
(`C02_old_formula_*`; replayable on the real code with corpus/C02/*.ops).

  clause of the property                      theorem
  "never a process crash"                     C02_decode_panics_iff (the dependency's exact panic set), C02_guard_refuses_panic_set,
                                              C02_bitsAreValid_iff, C02_processHeader_rejects_malformed, C02_past_guard_no_panic,
                                              C02_target_total (Target cannot panic), C02_processHeader_no_panic, C02_history_no_panic
  "hash ≤ target encoded in its bits field"   C02_decode_eq_network (every word the guard accepts), C02_accept_implies_pow,
                                              C02_still_accepted_above_powLimit (what the network refuses but the property does not require)
  "median-of-three as the network does"       C02_median_eq_network (all a b c, ties included)
  "signed time span clamped to [72,288]"      C02_span_eq_network (all timestamps)
  "bits equal the network's algorithm"        C02_target_eq_network (samples), C02_branch_target_eq_network (a branch, main or fork),
                                              C02_accept_implies_daa_bits, C02_activation_height, C02_constants_are_the_networks
  compact encoding                            C02_encode_eq_network, C02_bits_roundtrip
  per-header work                             C02_blockWork_pos, C02_blockWork_eq_network, C02_add_work_increases

Quantifiers: every compact word (all of `Nat`, reduced mod 2^32 as a `uint32` parameter is), every
triple of samples, every pair of median samples, every list of branches and heights, every target.
"Every header of the real chain is accepted" is not a theorem (the real chain is data): it is
checked on the 2822 real headers of the fixtures through the real `ProcessHeader` on every run.
-/
import BRV.Proofs.PowLemmas
import BRV.Proofs.PowRoundTrip
import BRV.Proofs.PowWork
import BRV.Proofs.PowLegacy
import BRV.Proofs.PowProcess

namespace BRV.Pow

/-! ## "Whatever 80 bytes a peer supplies … never a process crash" -/

/-- **Exact characterisation of the dependency's crash.** `bitcoin.ConvertToDifficulty(bits)` hits
    Go's "index out of range [1] with length 1" exactly when the effective byte length is 1:
    exponent byte 1 with a non-zero high mantissa byte, or exponent byte 2 with a zero one. -/
theorem C02_decode_panics_iff (bits : Nat) :
    convertToDifficulty bits = none ↔ bitsPanics bits = true :=
  decode_none_iff bits

/-- the panic set is not empty (so the guard is needed). -/
theorem C02_decode_panic_witness :
    convertToDifficulty 0x01010000 = none ∧ convertToDifficulty 0x02000000 = none
      ∧ convertToDifficulty 0x0200ffff = none ∧ convertToDifficulty 0x01800000 = none := by decide

/-- **The guard `bitsAreValid` refuses every word of the panic set.** -/
theorem C02_guard_refuses_panic_set (bits : Nat) (h : convertToDifficulty bits = none) :
    bitsAreValid bits = false :=
  panics_invalid bits h

/-- **What the guard accepts, exactly**: sign bit clear, non-zero mantissa, exponent byte in 1..32,
    and outside the panic set. -/
theorem C02_bitsAreValid_iff (bits : Nat) :
    bitsAreValid bits = true ↔
      (bits % 2 ^ 32 / 2 ^ 23 % 2 = 0 ∧ bits % 2 ^ 32 % 2 ^ 23 ≠ 0 ∧
       1 ≤ bits % 2 ^ 32 / 2 ^ 24 ∧ bits % 2 ^ 32 / 2 ^ 24 ≤ 32 ∧ bitsPanics bits = false) :=
  bitsAreValid_iff bits

/-- **Refused bits are refused, not crashed on.** In ANY repository state, with difficulty checking
    on or off, whatever the other 76 bytes are, `ProcessHeader` on a header whose bits the guard
    refuses returns ErrInvalidTarget and changes nothing. (Before fix 192cc38 the first statement,
    `WorkIsValid`, panicked on the panic set: corpus/C02/pow-bits-panic.ops.) -/
theorem C02_processHeader_rejects_malformed (r : Repo) (hash prev time bits : Nat)
    (hb : bitsAreValid bits = false) :
    processHeader r hash prev time bits = (r, .invalidTarget) := by
  unfold processHeader
  simp [hb]

/-- **Every conversion of the header's own bits behind the guard succeeds**: past the first check,
    `ConvertToDifficulty(header.Bits)` (in `WorkIsValid`, `NewBranch`, `Branch.Add`) returns a value,
    so the per-header work exists and is ≥ 1. -/
theorem C02_past_guard_no_panic (bits : Nat) (hv : bitsAreValid bits = true) :
    ∃ t w, convertToDifficulty bits = some t ∧ blockWork bits = some w ∧ 1 ≤ w := by
  cases h : convertToDifficulty bits with
  | none => rw [panics_invalid bits h] at hv; cases hv
  | some t => exact ⟨t, convertToWork t, rfl, by simp [blockWork, h], convertToWork_pos t⟩

/-- **`Branch.Target` is total**: for every list of branches, branch and height it returns a target
    or one of the two "header data not found" errors — by construction of `TargetResult`, which has
    no panic outcome because `targetOfSamples` is a total function: its only division is by the
    clamped span, which is at least 72·600. -/
theorem C02_target_total (ts : Int) : 0 < clampSpan ts := by
  have := (clampSpan_bounds ts).1; omega

/-- **`ProcessHeader` never crashes**: in every repository state whose branches are non-empty (every
    `*Branch` holds at least its first header — true of `NewBranch`), for every header, the outcome
    is an accept or one of the error classes. -/
theorem C02_processHeader_no_panic (r : Repo) (hash prev time bits : Nat)
    (hne : ∀ b ∈ r.bs, b.hdrs ≠ []) :
    (processHeader r hash prev time bits).2 ≠ .panic := by
  unfold processHeader
  cases hv : bitsAreValid bits with
  | false => simp
  | true =>
    obtain ⟨t, w, ht, hw, _⟩ := C02_past_guard_no_panic bits hv
    simp only [Bool.not_true, Bool.false_eq_true, ↓reduceIte, ht, Option.map_some]
    by_cases hd : r.diffOn = true
    · simp only [hd, ↓reduceIte]
      by_cases hle : hash ≤ t
      · simp only [hle, decide_true]
        exact processLinked_no_panic r hash prev time bits w hne hw
      · simp [hle]
    · simp only [hd, Bool.false_eq_true, ↓reduceIte]
      exact processLinked_no_panic r hash prev time bits w hne hw

/-- a header as `ProcessHeader` reads it: (hash, previous hash, time, bits). -/
abbrev HeaderIn := Nat × Nat × Nat × Nat

/-- feed a list of headers to the repository, collecting the verdicts. -/
def runHeaders (r : Repo) : List HeaderIn → Repo × List Verdict
  | [] => (r, [])
  | (hash, prev, time, bits) :: rest =>
    let (r', v) := processHeader r hash prev time bits
    let (r'', vs) := runHeaders r' rest
    (r'', v :: vs)

/-- **No sequence of headers crashes the repository.** Starting from any state whose branches are
    non-empty (e.g. right after `MockLatest` / genesis initialisation), whatever headers peers
    supply, in whatever order, every single decision is an accept or an error return: the
    non-emptiness needed by `C02_processHeader_no_panic` is itself preserved by `ProcessHeader`. -/
theorem C02_history_no_panic (r : Repo) (hs : List HeaderIn) (hne : ∀ b ∈ r.bs, b.hdrs ≠ []) :
    ∀ v ∈ (runHeaders r hs).2, v ≠ .panic := by
  induction hs generalizing r with
  | nil => intro v hv; simp [runHeaders] at hv
  | cons x rest ih =>
    obtain ⟨hash, prev, time, bits⟩ := x
    intro v hv
    simp only [runHeaders, List.mem_cons] at hv
    rcases hv with rfl | hv
    · exact C02_processHeader_no_panic r hash prev time bits hne
    · exact ih _ (nonEmpty_processHeader r hash prev time bits hne) v hv

/-- the DESIGN's `C02_decode_total`, in the form that is true: behind the guard the decoder is total. -/
theorem C02_decode_total (bits : Nat) (hv : bitsAreValid bits = true) : convertToDifficulty bits ≠ none := by
  intro h; rw [panics_invalid bits h] at hv; cases hv

example : (runHeaders (mockLatest {} 100 5 1 0 7 0x1d00ffff).1
    [(2, 1, 8, 0x01010000), (2 ^ 250, 1, 9, 0x1d00ffff), (3, 1, 9, 0x1d00ffff), (0, 9, 9, 0x207fffff)]).2
    = [.invalidTarget, .notEnoughWork, .ok, .unknownHeader] := by decide

example : bitsPanics 0x01010000 = true ∧ bitsPanics 0x1d00ffff = false ∧ bitsPanics 0x0200ffff = true := by decide
example : processHeader {} 5 6 7 0x01010000 = ({}, .invalidTarget) := C02_processHeader_rejects_malformed _ _ _ _ _ (by decide)
example : bitsAreValid 0x1d00ffff = true ∧ bitsAreValid 0x0200ffff = false ∧ bitsAreValid 0x0000ffff = false
    ∧ bitsAreValid 0x20800000 = false ∧ bitsAreValid 0x2100ffff = false ∧ bitsAreValid 0x1d000000 = false := by decide

/-! ## "its hash does not exceed the target encoded in its bits field" -/

/-- **On every word the guard accepts, the code's decoding IS the network's**
    (`arith_uint256::SetCompact`), which flags it neither negative nor overflowing. -/
theorem C02_decode_eq_network (bits : Nat) (hb : bits < 2 ^ 32) (hv : bitsAreValid bits = true) :
    convertToDifficulty bits = some (Spec.setCompact bits).value ∧
      (Spec.setCompact bits).negative = false ∧ (Spec.setCompact bits).overflow = false :=
  valid_decode bits hb hv

/-- **A header is accepted only if its hash does not exceed the target its bits encode** (as the
    network decodes them). For every repository state with difficulty checking on, every header. -/
theorem C02_accept_implies_pow (r : Repo) (hash prev time bits : Nat) (hb : bits < 2 ^ 32)
    (hd : r.diffOn = true) (hok : (processHeader r hash prev time bits).2 = .ok) :
    bitsAreValid bits = true ∧ hash ≤ (Spec.setCompact bits).value ∧
      (Spec.setCompact bits).negative = false ∧ (Spec.setCompact bits).overflow = false := by
  unfold processHeader at hok
  cases hv : bitsAreValid bits with
  | false => simp [hv] at hok
  | true =>
    obtain ⟨ht, hneg, hov⟩ := valid_decode bits hb hv
    refine ⟨rfl, ?_, hneg, hov⟩
    simp only [hv, Bool.not_true, Bool.false_eq_true, ↓reduceIte, hd, ht, Option.map_some] at hok
    by_cases hle : hash ≤ (Spec.setCompact bits).value
    · exact hle
    · simp [hle] at hok

/-- **What is still accepted although the network refuses it** (and the property does not require
    refusing): below the activation height a target ABOVE the proof-of-work limit, e.g. 0x207fffff
    (the guard accepts it, the code decodes it as the network does, `CheckProofOfWork` would say no).
    From the activation height on the bits must equal the computed ones, which never exceed the
    limit (`C02_encode_eq_network`), so this is confined to heights below 556767. -/
theorem C02_still_accepted_above_powLimit :
    bitsAreValid 0x207fffff = true ∧ convertToDifficulty 0x207fffff = some (Spec.setCompact 0x207fffff).value
      ∧ Spec.validTarget 0x207fffff = none ∧ Spec.powLimit < (Spec.setCompact 0x207fffff).value := by decide

example : convertToDifficulty 0x1d00ffff = some (Spec.setCompact 0x1d00ffff).value :=
  (C02_decode_eq_network _ (by decide) (by decide)).1
example : convertToDifficulty 0x1d00ffff = some (0xffff * 2 ^ 208) := by decide
example : convertToDifficulty 0x180f0dc7 = some (0x0f0dc7 * 256 ^ 21) := by decide

/-! ## per-header work -/

/-- **Every accepted header adds at least 1 to the accumulated work.** -/
theorem C02_blockWork_pos (bits w : Nat) (h : blockWork bits = some w) : 1 ≤ w := by
  unfold blockWork at h
  cases hd : convertToDifficulty bits with
  | none => rw [hd] at h; cases h
  | some d =>
    rw [hd] at h
    simp only [Option.map_some, Option.some.injEq] at h
    rw [← h]; exact convertToWork_pos d

/-- for a target below 2^256 the work is the reference node's `GetBlockProof`: ⌊2^256/(target+1)⌋. -/
theorem C02_blockWork_eq_network (d : Nat) (h : d < 2 ^ 256) : convertToWork d = 2 ^ 256 / (d + 1) :=
  convertToWork_eq d h

/-- `Branch.Add` makes the accumulated work strictly greater than the previous header's. -/
theorem C02_add_work_increases (bs bs' : Branches) (i : Nat) (hash prev time bits : Nat)
    (h : addHeader bs i hash prev time bits = (bs', .ok)) :
    ∃ b b' last new, bs[i]? = some b ∧ bs'[i]? = some b' ∧ b.hdrs.getLast? = some last ∧
      b'.hdrs = b.hdrs ++ [new] ∧ last.acc < new.acc ∧ new.bits = bits ∧ new.time = time := by
  unfold addHeader at h
  split at h
  · cases h
  · rename_i b hb
    split at h
    · cases h
    · rename_i last hl
      split at h
      · cases h
      · split at h
        · cases h
        · rename_i bw hbw
          simp only [Prod.mk.injEq, and_true] at h
          have hlen : i < bs.length := by
            rcases Nat.lt_or_ge i bs.length with hh | hh
            · exact hh
            · rw [List.getElem?_eq_none hh] at hb; cases hb
          refine ⟨b, { b with hdrs := b.hdrs ++ [{ hash, prev, time, bits, acc := last.acc + bw }] }, last,
            { hash, prev, time, bits, acc := last.acc + bw }, hb, ?_, hl, rfl, ?_, rfl, rfl⟩
          · rw [← h]; simp [hlen]
          · have := C02_blockWork_pos bits bw hbw
            show last.acc < last.acc + bw
            omega

example : blockWork 0x1d00ffff = some 0x100010001 := by decide

/-! ## "median-of-three endpoints chosen as the network does" -/

/-- **The code's median block is the network's suitable block, for ALL timestamps, ties included**
    (same time AND same accumulated work). `a` is the oldest of the three consecutive headers. -/
theorem C02_median_eq_network (a b c : Sample) :
    toBlock (median3 a b c) = Spec.suitableBlock (toBlock a) (toBlock b) (toBlock c) :=
  median3_eq_suitable a b c

example : median3 ⟨5, 10⟩ ⟨5, 20⟩ ⟨3, 30⟩ = ⟨5, 20⟩ ∧ median3 ⟨9, 10⟩ ⟨5, 20⟩ ⟨5, 30⟩ = ⟨5, 20⟩
    ∧ median3 ⟨7, 10⟩ ⟨3, 20⟩ ⟨5, 30⟩ = ⟨5, 30⟩ := by decide

/-! ## "signed time span clamped to [72,288] blocks' worth" -/

/-- **The clamped span is the network's for ALL pairs of timestamps** (backwards time included). -/
theorem C02_span_eq_network (l f : Nat) : clampSpan (timeSpan l f) = Spec.clampedSpan l f :=
  clampSpan_eq_spec l f

example : clampSpan (timeSpan 100 200) = 43200 ∧ clampSpan (timeSpan 1600086400 1600000000) = 86400
    ∧ clampSpan (timeSpan 4000000000 5) = 172800 := by decide

/-! ## "its bits field equals the value the network's algorithm requires" -/

/-- **The bits the code requires are the network's, for every pair of median samples** with
    `first.work ≤ last.work` (always so on a branch, `C02_add_work_increases`) and a projected work
    `W` in `(0, 2^256]` (the network's own 256-bit arithmetic needs the same). -/
theorem C02_target_eq_network (last first : Sample) (hw : first.work ≤ last.work)
    (hpos : 0 < projected last first) (hle : projected last first ≤ 2 ^ 256) :
    Spec.daaBitsOf (toBlock first) (toBlock last) = some (targetBits (targetOfSamples last first)) := by
  rw [targetOfSamples_closed last first hw hle]
  unfold targetBits Spec.daaBitsOf Spec.computeTarget
  have hp : ((toBlock last).chainWork - (toBlock first).chainWork) * Spec.targetSpacing /
      (Spec.clampedSpan (toBlock last).time (toBlock first).time).toNat = projected last first := rfl
  simp only [hp]
  have h0 : ¬ (projected last first = 0) := by omega
  simp only [h0, ↓reduceIte, Option.map_some, Int.natAbs_natCast, Option.some.injEq]
  rw [convertToBits_eq_getCompact]
  generalize (2 ^ 256 - projected last first) / projected last first = T
  have hpl : Spec.powLimit = maxWork := rfl
  rw [hpl]
  rw [Nat.min_def, Nat.min_def]
  split <;> split <;> (try split) <;> first | rfl | (congr 1; omega) | omega

/-- with no projected work (`W = 0`, impossible for headers at or below the proof-of-work limit: 142
    blocks of work ≥ 2^32 each) the code falls back to the limit instead of dividing by zero; the
    network's formula is undefined there. -/
theorem C02_target_zero_work (last first : Sample) (hw : first.work ≤ last.work)
    (h0 : projected last first = 0) :
    targetOfSamples last first = (maxWork : Int) ∧ Spec.computeTarget (toBlock first) (toBlock last) = none := by
  constructor
  · rw [targetOfSamples_closed last first hw (by omega)]; simp [h0]
  · unfold Spec.computeTarget
    have hp : ((toBlock last).chainWork - (toBlock first).chainWork) * Spec.targetSpacing /
        (Spec.clampedSpan (toBlock last).time (toBlock first).time).toNat = projected last first := rfl
    simp only [hp, h0, ↓reduceIte]

/-- a branch as the network sees a chain: height ↦ (time, chain work). -/
def chainOf (bs : Branches) (i : Nat) : Nat → Option Spec.Block :=
  fun h => (timeAndWork bs i (h : Int)).map toBlock

/-- **`Branch.Target` on a branch — main or fork, lookups crossing into parent branches — is
    `GetNextCashWorkRequired` on the chain that branch represents.** For every list of branches,
    branch index and height `h ≥ 148`: if `Target(h)` returns `t`, then with `first`/`last` the
    medians it used, `daaBits (chainOf bs i) h = ConvertToBits(t, MaxBits)`. -/
theorem C02_branch_target_eq_network (bs : Branches) (i h : Nat) (hh : 148 ≤ h) (t : Int)
    (ht : target bs i (h : Int) = .ok t) :
    ∃ last first, medianTimeAndWork bs i ((h : Int) - 1) = some last ∧
      medianTimeAndWork bs i ((h : Int) - 145) = some first ∧
      (first.work ≤ last.work → 0 < projected last first → projected last first ≤ 2 ^ 256 →
        Spec.daaBits (chainOf bs i) h = some (targetBits t)) := by
  unfold target at ht
  have o1 : (Facts.daaLastOffset : Int) = 1 := rfl
  have o2 : (Facts.daaFirstOffset : Int) = 145 := rfl
  rw [o1, o2] at ht
  cases hl : medianTimeAndWork bs i ((h : Int) - 1) with
  | none => rw [hl] at ht; cases ht
  | some last =>
    cases hf : medianTimeAndWork bs i ((h : Int) - 145) with
    | none => rw [hl, hf] at ht; cases ht
    | some first =>
      rw [hl, hf] at ht
      simp only [TargetResult.ok.injEq] at ht
      refine ⟨last, first, rfl, rfl, ?_⟩
      intro hw hpos hle
      -- open the two medians
      unfold medianTimeAndWork at hl hf
      cases a2 : timeAndWork bs i ((h : Int) - 1) with
      | none => rw [a2] at hl; cases hl
      | some l2 =>
      cases a1 : timeAndWork bs i ((h : Int) - 1 - 1) with
      | none => rw [a2, a1] at hl; cases hl
      | some l1 =>
      cases a0 : timeAndWork bs i ((h : Int) - 1 - 2) with
      | none => rw [a2, a1, a0] at hl; cases hl
      | some l0 =>
      cases b2 : timeAndWork bs i ((h : Int) - 145) with
      | none => rw [b2] at hf; cases hf
      | some f2 =>
      cases b1 : timeAndWork bs i ((h : Int) - 145 - 1) with
      | none => rw [b2, b1] at hf; cases hf
      | some f1 =>
      cases b0 : timeAndWork bs i ((h : Int) - 145 - 2) with
      | none => rw [b2, b1, b0] at hf; cases hf
      | some f0 =>
      rw [a2, a1, a0] at hl
      rw [b2, b1, b0] at hf
      simp only [Option.bind_some, Option.some.injEq] at hl hf
      unfold Spec.daaBits chainOf
      have hlt : ¬ (h < 148) := by omega
      simp only [hlt, ↓reduceIte]
      have e1 : ((h - 1 : Nat) : Int) = (h : Int) - 1 := by omega
      have e2 : ((h - 2 : Nat) : Int) = (h : Int) - 1 - 1 := by omega
      have e3 : ((h - 3 : Nat) : Int) = (h : Int) - 1 - 2 := by omega
      have e4 : ((h - 145 : Nat) : Int) = (h : Int) - 145 := by omega
      have e5 : ((h - 146 : Nat) : Int) = (h : Int) - 145 - 1 := by omega
      have e6 : ((h - 147 : Nat) : Int) = (h : Int) - 145 - 2 := by omega
      rw [e1, e2, e3, e4, e5, e6, a2, a1, a0, b2, b1, b0]
      simp only [Option.map_some]
      rw [← median3_eq_suitable, ← median3_eq_suitable, hl, hf, ← ht]
      exact C02_target_eq_network last first hw hpos hle

/-- **From the activation height on, a newly accepted header's bits equal what `Target` computes on
    its own branch** (hence, by the theorem above, what the network requires). For every repository
    state with difficulty checking on and every header not yet held. -/
theorem C02_accept_implies_daa_bits (r : Repo) (hash prev time bits : Nat)
    (hd : r.diffOn = true) (hok : (processHeader r hash prev time bits).2 = .ok)
    (hnew : branchesFind r.bs hash = none) :
    ∃ pb ph, branchesFind r.bs prev = some (pb, ph) ∧
      (daaActive (ph + 1) = true → ∃ t, target r.bs pb (ph + 1) = .ok t ∧ targetBits t = bits % 2 ^ 32) := by
  have hlinked : (processLinked r hash prev time bits).2 = .ok := by
    unfold processHeader at hok
    cases hv : bitsAreValid bits with
    | false => simp [hv] at hok
    | true =>
      simp only [hv, Bool.not_true, Bool.false_eq_true, ↓reduceIte, hd] at hok
      split at hok
      · simp at hok
      · simp at hok
      · exact hok
  unfold processLinked at hlinked
  cases hf : branchesFind r.bs prev with
  | none => rw [hf] at hlinked; simp only at hlinked; split at hlinked <;> (try split at hlinked) <;> simp at hlinked
  | some p =>
    obtain ⟨pb, ph⟩ := p
    refine ⟨pb, ph, rfl, ?_⟩
    intro hact
    rw [hf] at hlinked
    simp only [hnew] at hlinked
    split at hlinked
    · simp at hlinked
    · split at hlinked
      · simp at hlinked
      · split at hlinked
        · rename_i hne; simp only at hlinked; exact absurd hlinked hne
        · rename_i hdaa
          have hdaa' : daaCheck r pb (ph + 1) bits = .ok := Classical.not_not.mp hdaa
          unfold daaCheck at hdaa'
          simp only [hact, hd, Bool.and_self, ↓reduceIte] at hdaa'
          cases htg : target r.bs pb (ph + 1) with
          | ok t =>
            refine ⟨t, rfl, ?_⟩
            rw [htg] at hdaa'
            simp only at hdaa'
            by_cases hbits : targetBits t = bits % 2 ^ 32
            · exact hbits
            · simp [hbits] at hdaa'
          | errLast => rw [htg] at hdaa'; simp at hdaa'
          | errFirst => rw [htg] at hdaa'; simp at hdaa'

example : projected ⟨86400, 144 * 4295032833⟩ ⟨0, 0⟩ = 4295032833 := by decide
example : Spec.daaBitsOf (toBlock ⟨0, 0⟩) (toBlock ⟨86400, 144 * 4295032833⟩)
    = some (targetBits (targetOfSamples ⟨86400, 144 * 4295032833⟩ ⟨0, 0⟩)) :=
  C02_target_eq_network _ _ (by decide) (by decide) (by decide)

/-- a branch of 150 headers at the proof-of-work limit (bits 0x1d00ffff), exactly 600 s apart,
    built with the model of `NewBranch` / `Branch.Add`. -/
def steadyBranch : Branches :=
  (List.range 149).foldl (fun bs i => (addHeader bs 0 (i + 2) (i + 1) (1600000600 + 600 * i) maxBits).1)
    (newBranch [] none (-1) 1 0 1600000000 maxBits).1

set_option maxRecDepth 100000 in
/-- the hypotheses of `C02_branch_target_eq_network` are met by a concrete branch, and the result is
    the limit itself: an on-schedule difficulty-1 chain stays at 0x1d00ffff, as on the network. -/
example : (match target steadyBranch 0 150 with | .ok t => targetBits t | _ => 0) = 0x1d00ffff ∧
    Spec.daaBits (chainOf steadyBranch 0) 150 = some 0x1d00ffff := by decide

/-! ## compact encoding of the computed target -/

/-- **`ConvertToBits(t, MaxBits)` is the network's `GetCompact` with the proof-of-work limit cap**,
    for every `t`. -/
theorem C02_encode_eq_network (t : Nat) :
    convertToBits t maxBits = Spec.getCompact (min t Spec.powLimit) :=
  convertToBits_eq_getCompact t

/-- **Bits round trip.** For every target `256 ≤ t ≤ MaxWork`, decoding the encoding of `t` does
    not panic and gives `t` truncated to its significant bytes: `t' ≤ t < t' + 256^(n−2)` where `n`
    is the byte length of `t` (three significant bytes, two when the top bit of the first is set).
    (For `1 ≤ t ≤ 255` the encoding lands in the panic set: `C02_roundtrip_small_panics`.) -/
theorem C02_bits_roundtrip (t : Nat) (h1 : 256 ≤ t) (h2 : t ≤ maxWork) :
    ∃ t', convertToDifficulty (convertToBits t maxBits) = some t' ∧ t' ≤ t ∧ t < t' + 256 ^ (byteLen t - 2) :=
  bits_roundtrip t h1 h2

/-- one-byte targets encode to words the decoder panics on (unreachable for the DAA: it would need
    a projected work of ~2^248). -/
theorem C02_roundtrip_small_panics :
    convertToDifficulty (convertToBits 0x7f maxBits) = none ∧ convertToDifficulty (convertToBits 0x91 maxBits) = none := by
  decide

example : convertToBits (0xffff * 2 ^ 208) maxBits = 0x1d00ffff := by decide
example : convertToBits (2 ^ 255) maxBits = 0x1d00ffff := by decide
example : ∃ t', convertToDifficulty (convertToBits 0x123456789abc maxBits) = some t' ∧ t' ≤ 0x123456789abc
    ∧ 0x123456789abc < t' + 256 ^ (byteLen 0x123456789abc - 2) := C02_bits_roundtrip _ (by decide) (by decide)

/-! ## the numbers in the source are the network's -/

/-- **"from the difficulty-algorithm activation height (556767) on"**: the activation test of
    `ProcessHeader`, with operator and literal as extracted from the current source, is true exactly
    from the network's activation height on. (At 556767 itself the required-split check admits only
    the real BSV header, so a changed operator is invisible at run time; it is caught here.) -/
theorem C02_activation_height (h : Int) : daaActive h = true ↔ (Spec.daaHeight : Int) ≤ h := by
  have h1 : (Facts.daaHeightOp == ">") = false := by decide
  have h2 : Facts.daaHeight = Spec.daaHeight := by decide
  unfold daaActive
  rw [h1, h2]
  simp

/-- **The window, spacing and clamp constants of `Branch.Target` are the network's**: medians of 3
    ending at heights h−1 and h−145 (144 apart), 600 s target spacing, clamp to [72, 288] spacings. -/
theorem C02_constants_are_the_networks :
    Facts.daaLastOffset = 1 ∧ Facts.daaFirstOffset = 1 + 144 ∧
    Facts.daaMedianCountLast = 3 ∧ Facts.daaMedianCountFirst = 3 ∧
    Facts.daaTargetSpacing = Spec.targetSpacing ∧
    (Facts.daaMinSpan : Int) = Spec.minSpan ∧ (Facts.daaMaxSpan : Int) = Spec.maxSpan ∧
    maxWork = Spec.powLimit ∧ Spec.getCompact Spec.powLimit = maxBits := by
  decide

example : daaActive 556767 = true ∧ daaActive 556766 = false := by decide

/-! ## the repository model's conversions are these -/

/-- `BRV.Work` (used by the header repository model for per-header work) computes the same
    functions on every `uint32` word. -/
theorem C02_work_model_agrees (bits : Nat) (hb : bits < 2 ^ 32) :
    convertToDifficulty bits = Work.convertToDifficulty bits ∧ blockWork bits = Work.blockWork bits ∧
      Work.malformedBits bits = !bitsAreValid bits :=
  ⟨convertToDifficulty_eq_work bits hb, blockWork_eq_work bits hb, malformedBits_eq bits hb⟩

/-! ## documentation: where the formulas of the OLD code (before fix 04c364b) differed -/

/-- OLD median (stable `sort.Sort`): equal to the network's OFF the two tie patterns. -/
theorem C02_old_formula_median_eq_off_ties (a b c : Sample)
    (h1 : ¬ (a.time = b.time ∧ c.time < a.time)) (h2 : ¬ (b.time = c.time ∧ b.time < a.time)) :
    toBlock (oldMedian3 a b c) = Spec.suitableBlock (toBlock a) (toBlock b) (toBlock c) :=
  oldMedian3_eq_suitable a b c h1 h2

/-- OLD median, tie `t0 = t1 > t2`: the OLDEST header was taken, the network takes the MIDDLE one. -/
theorem C02_old_formula_median_tie1 (a b c : Sample) (h : a.time = b.time) (hc : c.time < a.time) :
    oldMedian3 a b c = a ∧ Spec.suitableBlock (toBlock a) (toBlock b) (toBlock c) = toBlock b :=
  oldMedian3_tie1 a b c h hc

/-- OLD median, tie `t0 > t1 = t2`: the NEWEST header was taken, the network takes the MIDDLE one. -/
theorem C02_old_formula_median_tie2 (a b c : Sample) (h : b.time = c.time) (hb : b.time < a.time) :
    oldMedian3 a b c = c ∧ Spec.suitableBlock (toBlock a) (toBlock b) (toBlock c) = toBlock b :=
  oldMedian3_tie2 a b c h hb

/-- OLD median differed from the network's EXACTLY on these two patterns (works differ on a branch). -/
theorem C02_old_formula_median_differs_iff (a b c : Sample) (hab : a.work ≠ b.work) (hbc : b.work ≠ c.work) :
    toBlock (oldMedian3 a b c) ≠ Spec.suitableBlock (toBlock a) (toBlock b) (toBlock c) ↔
      (a.time = b.time ∧ c.time < a.time) ∨ (b.time = c.time ∧ b.time < a.time) := by
  constructor
  · intro hne
    by_cases h1 : a.time = b.time ∧ c.time < a.time
    · exact Or.inl h1
    · by_cases h2 : b.time = c.time ∧ b.time < a.time
      · exact Or.inr h2
      · exact absurd (oldMedian3_eq_suitable a b c h1 h2) hne
  · rintro (⟨h, hc⟩ | ⟨h, hb⟩)
    · obtain ⟨e1, e2⟩ := oldMedian3_tie1 a b c h hc
      rw [e1, e2]; intro hc2
      exact hab (congrArg Spec.Block.chainWork hc2)
    · obtain ⟨e1, e2⟩ := oldMedian3_tie2 a b c h hb
      rw [e1, e2]; intro hc2
      exact hbc (congrArg Spec.Block.chainWork hc2).symm

/-- the tie alone moved the required bits (the network's own formula on both sides). -/
theorem C02_old_formula_median_tie_changes_bits_witness :
    let a : Sample := { time := 87000, work := 1000 * 0x100010001 }
    let b : Sample := { time := 87000, work := 1001 * 0x100010001 }
    let c : Sample := { time := 86400, work := 1002 * 0x100010001 }
    let first : Sample := { time := 600, work := 800 * 0x100010001 }
    Spec.daaBitsOf (toBlock first) (toBlock (oldMedian3 a b c)) = some 0x1d00b851 ∧
    Spec.daaBitsOf (toBlock first) (toBlock (median3 a b c)) = some 0x1d00b766 ∧
    Spec.daaBitsOf (toBlock first) (Spec.suitableBlock (toBlock a) (toBlock b) (toBlock c)) = some 0x1d00b766 := by
  decide

/-- OLD time span (uint32): with `lastTime < firstTime` it wrapped and was clamped to the MAXIMUM
    where the network clamps the negative difference to the MINIMUM. -/
theorem C02_old_formula_span_wrap (l f : Nat) (h : l < f) (hf : f < 2 ^ 32) (hd : f - l ≤ 2 ^ 32 - 172800) :
    clampSpan (oldTimeSpan l f) = 172800 ∧ Spec.clampedSpan l f = 43200 :=
  oldSpan_wrap l f h hf hd

/-- OLD time span agreed with the network's when `lastTime ≥ firstTime`. -/
theorem C02_old_formula_span_eq_forward (l f : Nat) (h : f ≤ l) (hl : l < 2 ^ 32) :
    clampSpan (oldTimeSpan l f) = Spec.clampedSpan l f :=
  oldSpan_eq_spec l f h hl

/-- OLD work→target inversion (`ConvertToWork`, ⌊2^256/(W+1)⌋) against the network's ⌊2^256/W⌋−1:
    on an on-schedule difficulty-1 window (W = 0x100010001) the old code demanded 0x1d00fffe where
    the network (and the repaired code) keep 0x1d00ffff; a backwards window moved the bits by 4×. -/
theorem C02_old_formula_inversion_and_span_witness :
    convertToBits (oldTargetOfSamples false ⟨86400, 144 * 4295032833⟩ ⟨0, 0⟩) maxBits = 0x1d00fffe ∧
    targetBits (targetOfSamples ⟨86400, 144 * 4295032833⟩ ⟨0, 0⟩) = 0x1d00ffff ∧
    Spec.daaBitsOf (toBlock ⟨0, 0⟩) (toBlock ⟨86400, 144 * 4295032833⟩) = some 0x1d00ffff ∧
    convertToBits (oldTargetOfSamples true ⟨1600000000, 1000 * 0x100010001⟩ ⟨1600000001, 856 * 0x100010001⟩) maxBits = 0x1d00ffff ∧
    targetBits (targetOfSamples ⟨1600000000, 1000 * 0x100010001⟩ ⟨1600000001, 856 * 0x100010001⟩) = 0x1c7fff80 := by
  decide

/-- the two inversions in general: `⌊2^256/(W+1)⌋ ≤ (⌊2^256/W⌋ − 1) + 1`; different functions whose
    compact encodings differ whenever a mantissa step lies between them. -/
theorem C02_old_formula_inversion_order (W : Nat) (hW : 0 < W) (hle : W ≤ 2 ^ 256) :
    2 ^ 256 / (W + 1) ≤ (2 ^ 256 / W - 1) + 1 := by
  have h1 : 2 ^ 256 / (W + 1) ≤ 2 ^ 256 / W := Nat.div_le_div_left (by omega) hW
  have h2 : 1 ≤ 2 ^ 256 / W := (Nat.le_div_iff_mul_le hW).mpr (by omega)
  omega

set_option maxRecDepth 100000 in
/-- OLD decoding accepted words the network refuses, which the new guard refuses: exponent byte 0
    (uint8 length wraps to 255: a 2040-bit target) and the sign bit read as magnitude. The
    dependency still decodes them this way; `ProcessHeader` no longer asks it to. -/
theorem C02_old_formula_decode_witness :
    convertToDifficulty 0x0000ffff = some (0xffff00 * 256 ^ 252) ∧ (Spec.setCompact 0x0000ffff).value = 0 ∧
    convertToDifficulty 0x20800000 = some (2 ^ 255) ∧ Spec.validTarget 0x20800000 = none ∧
    bitsAreValid 0x0000ffff = false ∧ bitsAreValid 0x20800000 = false := by
  decide

end BRV.Pow
