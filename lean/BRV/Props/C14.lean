/-
C14 — Message framing never desynchronises on protocol-conformant traffic.

Theorems about the byte-level model (Model/Wire.lean) of handleMessage / readMessage /
DiscardInput / DiscardInputWithCounter and every handler's byte accounting, tied to
handlers.go / messages.go by the `node` correspondence (frames of every command, classic and
extended, payloads 0 B .. several 100 kB, requested and unrequested blocks, then a ping).

"Consumed exactly" is stated as: the outcome is `ok s' rest fx` with `rest` literally the bytes
that followed the frame (so the next message is parsed from its first byte), or the connection was
closed (a policy decision: second protoconf, wrong pong nonce, undecodable payload, header the
repository rejects), or — only through the dependency's decoders asking for more memory than the
host grants, see C15 — the process aborted. It is never `need` (waiting for bytes that belong to
the next message) and never `wedged`.

Quantifiers: every state `s` (block requested or not, tx manager or not, ready or not), every
environment satisfying `EnvOk` (4 magic bytes, hash ≥ 4 bytes), every payload `p` below 4 GiB
(classic) and every following byte string `rest`.
-/
import BRV.Proofs.NodeBlock
import BRV.Props.C13

namespace BRV.Wire
open BRV BRV.Node BRV.Spec

/-- "exactly consumed, or closed, or aborted": never waiting, never blocked. -/
def ExactOrEnd (rest : Bytes) : Outcome → Prop
  | .ok _ r _ => r = rest
  | .closed _ _ => True
  | .panic _ => True
  | .need _ _ _ => False
  | .wedged _ _ => False

theorem toOutcome_exact (L : Nat) (p rest : Bytes) (o : HOut) (hp : p.length = L) (hs : Sound L o) :
    ExactOrEnd rest (toOutcome (p ++ rest) o) := by
  unfold toOutcome
  split
  · rename_i h
    show List.drop o.used (p ++ rest) = rest
    rw [hs.1 h, ← hp, List.drop_left]
  · trivial
  · trivial
  · rename_i h; exact absurd h hs.2.1
  · rename_i h; exact absurd h hs.2.2
  · trivial

/-- **C14 (commands without a handler).** A frame of any conformant command the table has no
    handler for (unknown commands, `getdata`, `feefilter`, `block` when none was requested, `tx`
    without tx manager, everything but the seven pre-accept commands before verification …), any
    payload: exactly the frame is consumed, the state is unchanged, no effect. -/
theorem C14_unhandled_exact (e : Env) (he : EnvOk e) (s : State) (cmd p rest : Bytes)
    (hc : wfCmd cmd) (hp : p.length < 2 ^ 32) (hl : lookupCmd s.table cmd = none) :
    handleMessage e s (classicFrame e cmd p ++ rest) = .ok s rest [] := by
  rw [handleMessage_classic e he s cmd p rest hc hp, hl]

/-- the handlers that take their payload through `readMessage` (plus `handleGetAddresses` for an
    empty payload): version, verack, protoconf, ping, pong, reject, addr, tx. -/
def viaRead : Handler → Bool
  | .version | .verack | .protoconf | .ping | .pong | .reject | .address | .tx => true
  | _ => false

theorem dispatch_sound_viaRead (e : Env) (s : State) (h : Handler) (hv : viaRead h = true)
    (L : Nat) (ck body : Bytes) (hL : L < two64) (hb : L ≤ body.length) : Sound L (dispatch e s h L ck body) := by
  cases h
  case version => exact hVersion_sound e s L ck body hb
  case verack => exact hVerack_sound e s L ck body hb
  case protoconf => exact hProtoconf_sound e s L ck body hb hL
  case ping => exact hPing_sound e s L ck body hb
  case pong => exact hPong_sound e s L ck body hb
  case reject => exact hReject_sound e s L ck body hb
  case address => exact hAddress_sound e s L ck body hb
  case tx => exact hTx_sound e s L true ck body hb
  all_goals simp [viaRead] at hv

/-- **C14 (messages read through readMessage).** version, verack, protoconf, ping, pong, reject,
    addr and classic tx frames with ANY payload content (lists empty or full, decodable or not),
    in any state: the frame is consumed to exactly its declared length or the connection ends;
    the reader never waits for more and never blocks. -/
theorem C14_consumes_exactly_classic (e : Env) (he : EnvOk e) (s : State) (cmd p rest : Bytes)
    (hc : wfCmd cmd) (hp : p.length < 2 ^ 32) (h : Handler) (hl : lookupCmd s.table cmd = some h)
    (hv : viaRead h = true) :
    ExactOrEnd rest (handleMessage e s (classicFrame e cmd p ++ rest)) := by
  rw [handleMessage_classic e he s cmd p rest hc hp, hl]
  apply toOutcome_exact p.length p rest _ rfl
  apply dispatch_sound_viaRead e s h hv
  · unfold two64; omega
  · simp

/-- **C14 (getaddr).** An empty `getaddr` is answered and consumes exactly its header. -/
theorem C14_getaddr_exact (e : Env) (he : EnvOk e) (s : State) (cmd rest : Bytes) (hc : wfCmd cmd)
    (hl : lookupCmd s.table cmd = some .getAddresses) :
    handleMessage e s (classicFrame e cmd [] ++ rest) = .ok s rest [.peersGet, .send "addr" 0] := by
  rw [handleMessage_classic e he s cmd [] rest hc (by simp), hl]
  rfl

/-- `handleBlock` on a block that is not the requested one (none requested, or another hash): 80
    bytes are read, the deferred `discardBlock` takes the remaining `L − 80`. -/
theorem hBlock_unrequested (e : Env) (s : State) (L : Nat) (inp : Bytes) (h80 : 80 ≤ L)
    (hL : L < two64) (ha : L ≤ inp.length) (hreq : s.blockReq ≠ some (e.hash (inp.take 80))) :
    Sound L (hBlock e s L inp) ∧ (hBlock e s L inp).used ≤ L := by
  have hn : ¬ inp.length < 80 := by omega
  unfold hBlock
  simp only [readN, hn, ↓reduceIte]
  cases hq : s.blockReq with
  | none =>
    exact ⟨finish_sound L _ _ hL ha h80 (by simp) (by simp),
      Nat.le_of_eq (finish_exact L _ _ h80 hL ha (Or.inl rfl)).1⟩
  | some want =>
    have hne : want ≠ e.hash (inp.take 80) := by intro hc; apply hreq; rw [hq, hc]
    simp only [ne_eq, hne, not_false_eq_true, ↓reduceIte]
    exact ⟨finish_sound L _ _ hL ha h80 (by simp) (by simp),
      Nat.le_of_eq (finish_exact L _ _ h80 hL ha (Or.inl rfl)).1⟩

/-- **C14 (block while another one, or none, is requested).** A classic `block` frame whose header
    hash is not the requested one is consumed to exactly its declared length. (With no handler in
    the table — nothing requested — it falls under `C14_unhandled_exact`.) -/
theorem C14_block_unrequested_exact (e : Env) (he : EnvOk e) (s : State) (cmd p rest : Bytes)
    (hc : wfCmd cmd) (hp : p.length < 2 ^ 32) (h80 : 80 ≤ p.length)
    (hl : lookupCmd s.table cmd = some .block) (hreq : s.blockReq ≠ some (e.hash (p.take 80))) :
    ExactOrEnd rest (handleMessage e s (classicFrame e cmd p ++ rest)) := by
  rw [handleMessage_classic e he s cmd p rest hc hp, hl]
  apply toOutcome_exact p.length p rest _ rfl
  have h80' : (p ++ rest).take 80 = p.take 80 := by
    rw [List.take_append_of_le_length h80]
  exact (hBlock_unrequested e s p.length (p ++ rest) h80 (by unfold two64; omega) (by simp)
    (by rw [h80']; exact hreq)).1

/-! ### count-driven lists -/

/-- **C14 (inv).** An `inv` whose list is as long as its count says (empty or full, tx and block
    items, known or new txids), in any state of the tx manager: consumed exactly — although
    `handleInventory` never looks at the declared length and has no deferred discard. -/
theorem C14_inv_exact (e : Env) (he : EnvOk e) (s : State) (cmd p rest : Bytes)
    (hc : wfCmd cmd) (hp : p.length < 2 ^ 32) (hw : wfInv p)
    (hl : lookupCmd s.table cmd = some .inventory) :
    ExactOrEnd rest (handleMessage e s (classicFrame e cmd p ++ rest)) := by
  rw [handleMessage_classic e he s cmd p rest hc hp, hl]
  apply toOutcome_exact p.length p rest _ rfl
  have := hInventory_exact s p rest hw
  simp only [dispatch]
  exact ⟨fun _ => this.2, by rw [this.1]; simp, by rw [this.1]; simp⟩

theorem withAlt_used (e : Env) (s : State) (inp : Bytes) (o : HOut) : (withAlt e s inp o).used = o.used := by
  unfold withAlt
  split
  · split <;> rfl
  · rfl

theorem varIntEnc_length_pos (k : Nat) : (varIntEnc k).length ≤ 9 := by
  unfold varIntEnc
  split
  · simp
  · split
    · simp [leN_length]
    · split <;> simp [leN_length]

theorem headers_flatten_length (k : Nat) (hs : List Bytes) (hit : items 80 k hs) :
    ((hs.map (· ++ [0])).flatten).length = 81 * k := by
  induction k generalizing hs with
  | zero => simp only [items] at hit; subst hit; simp
  | succ k ih =>
    simp only [items] at hit
    obtain ⟨x, r, rfl, hx, hr'⟩ := hit
    simp only [List.map_cons, List.flatten_cons, List.length_append, hx, List.length_cons, List.length_nil,
      ih r hr']
    omega

/-- **C14 (headers).** A `headers` message whose list is as long as its count says (0 … any
    number of 81-byte records), on a ready node, with or without alternate header handler:
    consumed exactly, or the node stopped because the repository rejected a header. -/
theorem C14_headers_exact (e : Env) (he : EnvOk e) (s : State) (cmd p rest : Bytes)
    (hc : wfCmd cmd) (hp : p.length < 2 ^ 32) (hw : wfHeaders p) (hr : s.ready = true)
    (hl : lookupCmd s.table cmd = some .headersTrack) :
    ExactOrEnd rest (handleMessage e s (classicFrame e cmd p ++ rest)) := by
  rw [handleMessage_classic e he s cmd p rest hc hp, hl]
  apply toOutcome_exact p.length p rest _ rfl
  simp only [dispatch]
  unfold hHeadersTrack
  simp only [hr, Bool.not_true, Bool.false_eq_true, ↓reduceIte]
  obtain ⟨k, hs, hk, hit, rfl⟩ := hw
  have hL : (varIntEnc k ++ (hs.map (· ++ [0])).flatten).length < two64 := by unfold two64; omega
  -- the body: count, then k records
  have hflat := headers_flatten_length k hs hit
  have hbody : ∀ o, o = hHeadersTrackBody e s (varIntEnc k ++ (hs.map (· ++ [0])).flatten ++ rest) →
      (o.res = .ok ∨ o.res = .stop) ∧ o.used ≤ (varIntEnc k ++ (hs.map (· ++ [0])).flatten).length := by
    intro o ho
    unfold hHeadersTrackBody at ho
    rw [List.append_assoc, readVarInt_enc k _ hk] at ho
    simp only [] at ho
    have hlen : ((hs.map (· ++ [0])).flatten ++ rest).length = 81 * k + rest.length := by
      rw [List.length_append, hflat]
    have hmin : min k (((hs.map (· ++ [0])).flatten ++ rest).length / 81 + 1) = k := by
      rw [hlen]
      apply Nat.min_eq_left
      have : k ≤ (81 * k + rest.length) / 81 := by
        rw [Nat.le_div_iff_mul_le (by decide)]; omega
      omega
    rw [hmin] at ho
    have ht := trackLoop_exact e s k hs hit rest
      ((varIntEnc k ++ ((hs.map (· ++ [0])).flatten ++ rest)).length - ((hs.map (· ++ [0])).flatten ++ rest).length) []
    simp only [] at ht
    rw [← ho] at ht
    refine ⟨ht.1, ?_⟩
    have := ht.2.1
    simp only [List.length_append, hflat] at this ⊢
    omega
  have hb := hbody _ rfl
  have hfin := finish_sound (varIntEnc k ++ (hs.map (· ++ [0])).flatten).length
    (varIntEnc k ++ (hs.map (· ++ [0])).flatten ++ rest).length _ hL (by simp) hb.2
    (by rcases hb.1 with h | h <;> rw [h] <;> simp) (by rcases hb.1 with h | h <;> rw [h] <;> simp)
  exact ⟨fun h => by rw [withAlt_used]; exact hfin.1 (by rw [withAlt_res] at h; exact h),
    by rw [withAlt_res]; exact hfin.2.1, by rw [withAlt_res]; exact hfin.2.2⟩

/-! ### extended framing -/

theorem readN_append (k : Nat) (a b : Bytes) (h : a.length = k) : readN k (a ++ b) = .ok a b := by
  unfold readN
  have : ¬ (a ++ b).length < k := by simp [h]
  simp only [this, ↓reduceIte, List.take_left' h, List.drop_left' h]

theorem readLE_leN (k n : Nat) (b : Bytes) (h : n < 256 ^ k) : readLE k (leN k n ++ b) = .ok n b := by
  unfold readLE
  rw [readN_append k _ _ (leN_length k n)]
  simp only [leVal_leN k n h]

theorem hTx_used_le (e : Env) (s : State) (L : Nat) (c : Bool) (ck inp : Bytes) (h : L ≤ inp.length) :
    (hTx e s L c ck inp).used ≤ L := by
  unfold hTx
  split
  · unfold discard
    have hn : ¬ inp.length < L := by omega
    simp only [hn, ↓reduceIte]; exact Nat.le_refl _
  · apply viaReadMessage_used_le
    intro p
    split
    · exact Nat.le_refl _
    · exact Nat.zero_le _
    · exact Nat.le_refl _

/-- what `handleExtended` makes of `command(12) ++ length(8) ++ p ++ rest`, `|p|` declared, given
    what `handleBlock` does with `p ++ rest` when a block handler is installed (`hblk`). -/
theorem hExtended_sound_gen (e : Env) (s : State) (c p rest : Bytes) (hc : c.length ≤ 12) (hp : p.length < 2 ^ 64)
    (hblk : s.table.get "block" = some .block →
      Sound p.length (hBlock e s p.length (p ++ rest)) ∧ (hBlock e s p.length (p ++ rest)).used ≤ p.length) :
    Sound (20 + p.length) (hExtended e s (cmdField c ++ leN 8 p.length ++ (p ++ rest))) := by
  unfold hExtended
  rw [List.append_assoc, readN_append 12 _ _ (cmdField_length c hc)]
  simp only []
  have h8 : p.length < 256 ^ 8 := by
    simp only [Nat.reducePow] at hp ⊢; exact hp
  rw [readLE_leN 8 p.length _ h8]
  simp only []
  have hL : p.length < two64 := by unfold two64; omega
  have ha : p.length ≤ (p ++ rest).length := by simp
  -- the inner handler is sound for |p| and stays within it; then the outer discard is exact
  have key : ∀ inner : HOut, Sound p.length inner → inner.used ≤ p.length →
      Sound (20 + p.length)
        { finish p.length (p ++ rest).length inner with used := (finish p.length (p ++ rest).length inner).used + 20 } := by
    intro inner hs hu
    have := finish_sound' p.length _ inner hL ha hs hu
    generalize finish p.length (p ++ rest).length inner = o at this ⊢
    exact ⟨fun h => (by have h' := this.1 h; show o.used + 20 = 20 + _; omega), this.2.1, this.2.2⟩
  have trivialInner : Sound p.length ({ st := s } : HOut) → True := fun _ => trivial
  have h0 : ∀ st : State, Sound (20 + p.length)
      { finish p.length (p ++ rest).length ({ st := st } : HOut) with
        used := (finish p.length (p ++ rest).length ({ st := st } : HOut)).used + 20 } := by
    intro st
    have := finish_sound p.length (p ++ rest).length ({ st := st } : HOut) hL ha (Nat.zero_le _) (by simp) (by simp)
    generalize finish p.length (p ++ rest).length ({ st := st } : HOut) = o at this ⊢
    exact ⟨fun h => (by have h' := this.1 h; show o.used + 20 = 20 + _; omega), this.2.1, this.2.2⟩
  split
  · exact h0 s
  · split
    · split
      · rename_i hb
        have := hblk hb
        exact key _ this.1 this.2
      · exact h0 s
    · split
      · split
        · exact key _ (hTx_sound e s p.length false [] (p ++ rest) ha) (hTx_used_le e s p.length false [] (p ++ rest) ha)
        · exact h0 s
      · exact h0 s

/-- the same when an installed block handler is for another block than this one. -/
theorem hExtended_sound (e : Env) (s : State) (c p rest : Bytes) (hc : c.length ≤ 12) (hp : p.length < 2 ^ 64)
    (hblk : s.table.get "block" = some .block → 80 ≤ p.length ∧ s.blockReq ≠ some (e.hash (p.take 80))) :
    Sound (20 + p.length) (hExtended e s (cmdField c ++ leN 8 p.length ++ (p ++ rest))) := by
  apply hExtended_sound_gen e s c p rest hc hp
  intro hb
  have hb' := hblk hb
  have h80' : (p ++ rest).take 80 = p.take 80 := List.take_append_of_le_length hb'.1
  exact hBlock_unrequested e s p.length (p ++ rest) hb'.1 (by unfold two64; omega) (by simp) (by rw [h80']; exact hb'.2)

/-- **C14 (extended framing).** An `extmsg` frame carrying any command (tx, block, unknown) and any
    payload `p` (up to 2^64−1 bytes declared = present), in any state — ready or not, tx manager or
    not, block handler installed (then for a block other than the requested one) or not: exactly
    24 + 20 + |p| bytes are consumed, or the connection ends. -/
theorem C14_extended_exact (e : Env) (he : EnvOk e) (s : State) (c p rest : Bytes)
    (hc : c.length ≤ 12) (hp : p.length < 2 ^ 64)
    (hl : lookupCmd s.table (ascii "extmsg") = some .extended)
    (hblk : s.table.get "block" = some .block → 80 ≤ p.length ∧ s.blockReq ≠ some (e.hash (p.take 80))) :
    ExactOrEnd rest (handleMessage e s (extFrame e c p ++ rest)) := by
  have hinp : extFrame e c p ++ rest =
      e.net ++ cmdField (ascii "extmsg") ++ leN 4 0xffffffff ++ [0, 0, 0, 0] ++
        ((cmdField c ++ leN 8 p.length ++ p) ++ rest) := by
    unfold extFrame; simp only [List.append_assoc]
  have hw : wfCmd (ascii "extmsg") := ⟨by decide, by decide, by decide⟩
  rw [hinp, handleMessage_frame e he s (ascii "extmsg") [0, 0, 0, 0] _ 0xffffffff hw (by decide) rfl, hl]
  have hs := hExtended_sound e s c p rest hc hp hblk
  simp only [dispatch]
  have hb : (cmdField c ++ leN 8 p.length ++ p) ++ rest = cmdField c ++ leN 8 p.length ++ (p ++ rest) := by
    simp only [List.append_assoc]
  have hlen : (cmdField c ++ leN 8 p.length ++ p).length = 20 + p.length := by
    simp only [List.length_append, cmdField_length c hc, leN_length]
  exact toOutcome_exact (20 + p.length) (cmdField c ++ leN 8 p.length ++ p) rest _ hlen (by rw [hb]; exact hs)

/-- extended framing with whatever `handleBlock` does for this payload (used for the requested block). -/
theorem C14_extended_exact_gen (e : Env) (he : EnvOk e) (s : State) (c p rest : Bytes)
    (hc : c.length ≤ 12) (hp : p.length < 2 ^ 64)
    (hl : lookupCmd s.table (ascii "extmsg") = some .extended)
    (hblk : s.table.get "block" = some .block →
      Sound p.length (hBlock e s p.length (p ++ rest)) ∧ (hBlock e s p.length (p ++ rest)).used ≤ p.length) :
    ExactOrEnd rest (handleMessage e s (extFrame e c p ++ rest)) := by
  have hinp : extFrame e c p ++ rest =
      e.net ++ cmdField (ascii "extmsg") ++ leN 4 0xffffffff ++ [0, 0, 0, 0] ++
        ((cmdField c ++ leN 8 p.length ++ p) ++ rest) := by
    unfold extFrame; simp only [List.append_assoc]
  have hw : wfCmd (ascii "extmsg") := ⟨by decide, by decide, by decide⟩
  rw [hinp, handleMessage_frame e he s (ascii "extmsg") [0, 0, 0, 0] _ 0xffffffff hw (by decide) rfl, hl]
  have hs := hExtended_sound_gen e s c p rest hc hp hblk
  simp only [dispatch]
  have hb : (cmdField c ++ leN 8 p.length ++ p) ++ rest = cmdField c ++ leN 8 p.length ++ (p ++ rest) := by
    simp only [List.append_assoc]
  have hlen : (cmdField c ++ leN 8 p.length ++ p).length = 20 + p.length := by
    simp only [List.length_append, cmdField_length c hc, leN_length]
  exact toOutcome_exact (20 + p.length) (cmdField c ++ leN 8 p.length ++ p) rest _ hlen (by rw [hb]; exact hs)

/-! ### the requested block -/

/-- the result of `handleBlock`'s body for a fully delivered requested block of `k` transactions. -/
def blockDone (s : State) (hash : Bytes) (k used : Nat) : HOut :=
  { st := completeBlock { s with blockReader := true, blockStarted := false,
                                 bh := { called := true, count := k, got := 0 + k, done := some true } } hash,
    fx := [.updateScore], used := used }

/-- `handleBlock` on the REQUESTED block, handler installed, the block well-formed (header, count,
    that many well-formed transactions, possibly extra bytes inside the declared length), followed
    by anything: every transaction is handed to the handler, which returns nil; the request is
    completed (node idle); exactly the declared length is consumed. -/
theorem hBlock_requested (e : Env) (s : State) (M : Nat) (hs : SizeOk e.mem M) (p rest : Bytes)
    (hw : wfBlock M p) (hL : p.length < two64)
    (hreq : s.blockReq = some (e.hash (p.take 80))) (hh : s.blockHandler = true) :
    Sound p.length (hBlock e s p.length (p ++ rest)) ∧ (hBlock e s p.length (p ++ rest)).used ≤ p.length ∧
    (hBlock e s p.length (p ++ rest)).res = .ok ∧ (hBlock e s p.length (p ++ rest)).fx = [.updateScore] ∧
    (hBlock e s p.length (p ++ rest)).st.busy = false ∧
    (hBlock e s p.length (p ++ rest)).st.bh.done = some true := by
  obtain ⟨h, k, txs, extra, hh80, hk, htx, rfl⟩ := hw
  have htake : (h ++ varIntEnc k ++ txs.flatten ++ extra).take 80 = h := by
    rw [List.append_assoc, List.append_assoc]; exact List.take_left' hh80
  rw [htake] at hreq
  have hinp : h ++ varIntEnc k ++ txs.flatten ++ extra ++ rest =
      h ++ (varIntEnc k ++ (txs.flatten ++ (extra ++ rest))) := by simp only [List.append_assoc]
  -- the body before the deferred discard
  have ho : hBlock e s (h ++ varIntEnc k ++ txs.flatten ++ extra).length
        (h ++ varIntEnc k ++ txs.flatten ++ extra ++ rest) =
      finish (h ++ varIntEnc k ++ txs.flatten ++ extra).length
        (h ++ varIntEnc k ++ txs.flatten ++ extra ++ rest).length
        (blockDone s (e.hash h) k
          ((h ++ varIntEnc k ++ txs.flatten ++ extra ++ rest).length - (extra ++ rest).length)) := by
    unfold hBlock blockDone
    rw [hinp, readN_append' 80 h _ hh80]
    simp only [hreq, ne_eq, not_true_eq_false, ↓reduceIte, hh, Bool.not_true, Bool.false_eq_true]
    rw [readVarInt_enc k _ hk]
    simp only []
    rw [blockLoop_ok e.mem M hs k txs htx (extra ++ rest) _ 0 (by
      have := wfTxs_le M k txs htx
      simp only [List.length_append]; omega)]
  rw [ho]
  generalize hused : (h ++ varIntEnc k ++ txs.flatten ++ extra ++ rest).length - (extra ++ rest).length = u
  have hu : (blockDone s (e.hash h) k u).used ≤ (h ++ varIntEnc k ++ txs.flatten ++ extra).length := by
    show u ≤ _
    rw [← hused]; simp only [List.length_append]; omega
  have ha : (h ++ varIntEnc k ++ txs.flatten ++ extra).length ≤
      (h ++ varIntEnc k ++ txs.flatten ++ extra ++ rest).length := by simp
  have hres : (blockDone s (e.hash h) k u).res = .ok := rfl
  have hfin := finish_exact _ _ (blockDone s (e.hash h) k u) hu hL ha (Or.inl hres)
  refine ⟨finish_sound _ _ _ hL ha hu (by rw [hres]; simp) (by rw [hres]; simp),
    Nat.le_of_eq hfin.1, by rw [hfin.2]; exact hres, by rw [finish_fx]; rfl, ?_, ?_⟩
  · rw [finish_st]; unfold blockDone; simp [completeBlock, hreq, State.busy]
  · rw [finish_st]; unfold blockDone; simp [completeBlock, hreq]

/-- **C14 (the requested block, classic framing).** For every node state with an outstanding
    request for this block and its handler installed, every well-formed block message (header,
    count, that many well-formed transactions — also with a count smaller than what the declared
    length holds), followed by any bytes: it is consumed to exactly its declared length. -/
theorem C14_block_requested_exact (e : Env) (he : EnvOk e) (s : State) (M : Nat) (hs : SizeOk e.mem M)
    (cmd p rest : Bytes) (hc : wfCmd cmd) (hp : p.length < 2 ^ 32) (hw : wfBlock M p)
    (hl : lookupCmd s.table cmd = some .block)
    (hreq : s.blockReq = some (e.hash (p.take 80))) (hh : s.blockHandler = true) :
    ExactOrEnd rest (handleMessage e s (classicFrame e cmd p ++ rest)) := by
  rw [handleMessage_classic e he s cmd p rest hc hp, hl]
  apply toOutcome_exact p.length p rest _ rfl
  exact (hBlock_requested e s M hs p rest hw (by unfold two64; omega) hreq hh).1

/-- **C14 (the requested block, extended framing).** -/
theorem C14_block_requested_exact_ext (e : Env) (he : EnvOk e) (s : State) (M : Nat) (hs : SizeOk e.mem M)
    (p rest : Bytes) (hp : p.length < 2 ^ 64) (hw : wfBlock M p)
    (hl : lookupCmd s.table (ascii "extmsg") = some .extended)
    (hreq : s.blockReq = some (e.hash (p.take 80))) (hh : s.blockHandler = true) :
    ExactOrEnd rest (handleMessage e s (extFrame e (ascii "block") p ++ rest)) := by
  apply C14_extended_exact_gen e he s (ascii "block") p rest (by decide) hp hl
  intro _
  have := hBlock_requested e s M hs p rest hw (by unfold two64; omega) hreq hh
  exact ⟨this.1, this.2.1⟩

/-- `handleBlock` on the block of a cancelled request (handler dropped before the block message):
    the request is completed (the node is idle again), nothing is handed to anybody, and the
    message — any content after the header — is consumed to exactly its declared length. -/
theorem hBlock_cancelled (e : Env) (s : State) (L : Nat) (inp : Bytes) (h80 : 80 ≤ L) (hL : L < two64)
    (ha : L ≤ inp.length) (hreq : s.blockReq = some (e.hash (inp.take 80))) (hh : s.blockHandler = false) :
    Sound L (hBlock e s L inp) ∧ (hBlock e s L inp).st = completeBlock s (e.hash (inp.take 80)) ∧
    (hBlock e s L inp).fx = [] := by
  have hn : ¬ inp.length < 80 := by omega
  unfold hBlock
  simp only [readN, hn, ↓reduceIte, hreq, ne_eq, not_true_eq_false, hh, Bool.not_false]
  exact ⟨finish_sound L _ _ hL ha h80 (by simp) (by simp), rfl, rfl⟩

/-- **C14 (block of a request cancelled before its message).** -/
theorem C14_block_cancelled_exact (e : Env) (he : EnvOk e) (s : State) (cmd p rest : Bytes)
    (hc : wfCmd cmd) (hp : p.length < 2 ^ 32) (h80 : 80 ≤ p.length)
    (hl : lookupCmd s.table cmd = some .block) (hreq : s.blockReq = some (e.hash (p.take 80)))
    (hh : s.blockHandler = false) :
    ExactOrEnd rest (handleMessage e s (classicFrame e cmd p ++ rest)) := by
  rw [handleMessage_classic e he s cmd p rest hc hp, hl]
  apply toOutcome_exact p.length p rest _ rfl
  have h80' : (p ++ rest).take 80 = p.take 80 := List.take_append_of_le_length h80
  exact (hBlock_cancelled e s p.length (p ++ rest) h80 (by unfold two64; omega) (by simp)
    (by rw [h80']; exact hreq) hh).1

/-- **C14 (a transaction of the requested block fails to parse).** Whenever the transaction loop
    ends in a decode error (or a recovered makeslice panic) and what was read so far lies inside
    the declared length, the rest of the message is discarded, the handler gets the end of its
    stream (it returns an error), the request is completed and the connection ENDS (`err`): no
    desynchronised continuation. -/
theorem hBlock_requested_tx_error (e : Env) (s : State) (L : Nat) (inp h r1 r2 : Bytes) (k got : Nat)
    (h80 : readN 80 inp = .ok h r1) (hreq : s.blockReq = some (e.hash h)) (hh : s.blockHandler = true)
    (hv : readVarInt r1 = .ok k r2)
    (hloop : blockLoop e.mem (r2.length + 1) k r2 0 = (.err, got) ∨ blockLoop e.mem (r2.length + 1) k r2 0 = (.panicked, got))
    (hL : L < two64) (ha : L ≤ inp.length) (hu : inp.length - r2.length ≤ L) :
    (hBlock e s L inp).res = .err ∧ (hBlock e s L inp).used = L ∧
    (hBlock e s L inp).st.busy = false ∧ (hBlock e s L inp).st.bh.done = some false := by
  unfold hBlock
  rw [h80]
  simp only [hreq, ne_eq, not_true_eq_false, ↓reduceIte, hh, Bool.not_true, Bool.false_eq_true, hv]
  rcases hloop with hl | hl <;> rw [hl] <;> simp only []
  all_goals
    refine ⟨?_, ?_, ?_, ?_⟩
    · exact (finish_exact L _ _ hu hL ha (Or.inr rfl)).2
    · exact (finish_exact L _ _ hu hL ha (Or.inr rfl)).1
    · rw [finish_st]; simp [completeBlock, State.busy]
    · rw [finish_st]; simp [completeBlock]

/-! ### never blocked, and a ping is always answered -/

/-- **C14 (never wedges).** No byte string makes `handleMessage` block for ever (the handshake
    channel send is non-blocking since fix 62ac204; before it the 11th extra version/verack did). -/
theorem C14_never_wedges (e : Env) (s : State) (inp : Bytes) (s' : State) (fx : List Effect) :
    handleMessage e s inp ≠ .wedged s' fx := by
  unfold handleMessage
  split
  · simp
  · split
    · simp
    · split
      · simp
      · simp only []
        split
        · split <;> simp
        · split
          · split <;> simp
          · rename_i hd _
            have := dispatch_nowedge e s hd (leVal ((inp.drop 16).take 4)) ((inp.drop 20).take 4) (inp.drop 24)
            unfold toOutcome
            split <;> simp_all [NoWedge]

/-- the ping frame the scripted peer sends. -/
def pingFrame (e : Env) (n : Nat) : Bytes := classicFrame e (ascii "ping") (leN 8 n)

/-- **C14 (ping → pong).** In every state whose table has the ping handler, a ping with nonce `n`
    followed by anything: exactly the ping is consumed, the state is unchanged and the one effect is
    a pong carrying `n`. -/
theorem C14_ping_pong (e : Env) (he : EnvOk e) (s : State) (n : Nat) (hn : n < 2 ^ 64) (rest : Bytes)
    (hl : lookupCmd s.table (ascii "ping") = some .ping) :
    handleMessage e s (pingFrame e n ++ rest) = .ok s rest [.send "pong" n] := by
  unfold pingFrame
  have hw : wfCmd (ascii "ping") := ⟨by decide, by decide, by decide⟩
  have hlen : (leN 8 n).length = 8 := leN_length 8 n
  rw [handleMessage_classic e he s _ _ rest hw (by rw [hlen]; decide), hl]
  rw [hlen]
  simp only [dispatch, hPing]
  have hrm : readMessage e 8 8 true ((e.hash (leN 8 n)).take 4) (leN 8 n ++ rest) = .payload (leN 8 n) := by
    unfold readMessage maxInt64
    have h1 : ¬ (leN 8 n ++ rest).length < 8 := by simp [hlen]
    have ht : (leN 8 n ++ rest).take 8 = leN 8 n := List.take_left' hlen
    simp only [gt_iff_lt, Nat.lt_irrefl, ↓reduceIte, h1, show ¬ (9223372036854775807 < 8) by decide, ht, ne_eq,
      not_true_eq_false, and_false]
  rw [hrm]
  have ht : (leN 8 n).take 8 = leN 8 n := by rw [← hlen]; exact List.take_length
  have h8 : n < 256 ^ 8 := by simp only [Nat.reducePow] at hn ⊢; exact hn
  simp only [viaReadMessage, hlen, Nat.lt_irrefl, ↓reduceIte, ht, leVal_leN 8 n h8, toOutcome, List.drop_left' hlen]

/-- **C14 (a ping after any sequence).** In every reachable state — after ANY history of handled
    messages, well-formed or not, that left the connection open and in sync — a ping is answered by
    the pong with its nonce, the state is unchanged and the next message starts right after it. -/
theorem C14_ping_after_any_sequence (e : Env) (he : EnvOk e) (s : State) (h : Reach e s) (n : Nat)
    (hn : n < 2 ^ 64) (rest : Bytes) :
    handleMessage e s (pingFrame e n ++ rest) = .ok s rest [.send "pong" n] :=
  C14_ping_pong e he s n hn rest (reach_inv e s h).ping

/-- after any handled message the connection is again in a state where a ping is answered: with
    the theorems above, the requested block (whole, classic or extended, or cancelled) is followed
    by an answered ping. -/
theorem C14_ping_after_ok_step (e : Env) (he : EnvOk e) (s s' : State) (hr : Reach e s) (inp rest : Bytes)
    (fx : List Effect) (hstep : handleMessage e s inp = .ok s' rest fx) (n : Nat) (hn : n < 2 ^ 64) (rest' : Bytes) :
    handleMessage e s' (pingFrame e n ++ rest') = .ok s' rest' [.send "pong" n] :=
  C14_ping_after_any_sequence e he s' (Reach.step inp hr (by rw [hstep]; rfl)) n hn rest'

/-! ### non-vacuity -/

namespace Example

theorem env0_ok : EnvOk env0 := ⟨rfl, fun b => by simp [env0]⟩

/-- the hypotheses of `C14_ping_after_any_sequence` are met by the initial state and the theorem's
    conclusion can be watched on concrete bytes: an unknown 300-byte message, an extended unknown
    message, then a ping. -/
example : Reach env0 (initState false true false 0) := Reach.init _ _ _ _

set_option maxRecDepth 100000 in
example :
    (runAll env0 (initState false true false 0)
      (classicFrame env0 (ascii "xyzzy") (List.replicate 300 7) ++ extFrame env0 (ascii "big") (List.replicate 100 9) ++
       pingFrame env0 77)).1 = [.send "pong" 77] := by decide +kernel

example : wfCmd (ascii "headers") := ⟨by decide, by decide, by decide⟩

/-- well-formed lists exist: an inventory of two items, a headers message of one header, empty ones. -/
example : wfInv ([2] ++ List.replicate 72 1) :=
  ⟨2, [List.replicate 36 1, List.replicate 36 1], by decide, ⟨_, _, rfl, by simp, _, _, rfl, by simp, rfl⟩, by decide⟩
example : wfInv [0] := ⟨0, [], by decide, rfl, rfl⟩

/-- a well-formed transaction (one input with a 1-byte script, one output with an empty script)
    and a well-formed block of two of them with 3 extra bytes inside the declared length. -/
def exIn : Bytes := List.replicate 36 0 ++ varIntEnc 1 ++ [0x51] ++ [255, 255, 255, 255]
def exOut : Bytes := List.replicate 8 0 ++ varIntEnc 0 ++ [] ++ []
def exTx : Bytes := [1, 0, 0, 0] ++ varIntEnc 1 ++ [exIn].flatten ++ varIntEnc 1 ++ [exOut].flatten ++ [0, 0, 0, 0]

theorem exTx_wf : wfTx 1000 exTx :=
  ⟨[1, 0, 0, 0], [0, 0, 0, 0], [exIn], [exOut], 1, 1, rfl, rfl, by decide, by decide,
   ⟨exIn, [], rfl, ⟨List.replicate 36 0, [0x51], [255, 255, 255, 255], by simp, rfl, by decide, rfl⟩, rfl⟩,
   ⟨exOut, [], rfl, ⟨List.replicate 8 0, [], [], by simp, rfl, by decide, rfl⟩, rfl⟩, rfl⟩

example : wfBlock 1000 (List.replicate 80 9 ++ varIntEnc 2 ++ [exTx, exTx].flatten ++ [7, 7, 7]) :=
  ⟨List.replicate 80 9, 2, [exTx, exTx], [7, 7, 7], by simp, by decide,
   ⟨exTx, [exTx], rfl, exTx_wf, ⟨exTx, [], rfl, exTx_wf, rfl⟩⟩, rfl⟩

example : SizeOk env0.mem 1000 := ⟨by decide, by decide⟩
example : wfHeaders ([1] ++ List.replicate 80 5 ++ [0]) :=
  ⟨1, [List.replicate 80 5], by decide, ⟨_, _, rfl, by simp, rfl⟩, by decide⟩

end Example

end BRV.Wire
