/- Spec: how a subscriber applies the new-header stream to its copy of the best chain. -/
import BRV.Model.Repo

namespace BRV.Spec

open BRV.Repo

/-- attach the header to its previous-block hash, discarding what was above it; a header whose
    parent is not in the chain leaves the chain unchanged (and is a protocol violation). -/
def applyOne (chain : List Hdr) (h : Hdr) : List Hdr :=
  match chain.findIdx? (fun x => x.id == h.prev) with
  | some k => chain.take (k + 1) ++ [h]
  | none => chain

def applyStream (chain : List Hdr) (evs : List Hdr) : List Hdr := evs.foldl applyOne chain

end BRV.Spec
