/-
Specification side of C14: what a well-formed P2P message is, independent of how the reader
parses it. A message is a command (12 bytes, zero padded), a payload and a framing (classic:
24-byte header with length and checksum; extended: `extmsg` header, then 12-byte command, 8-byte
length). Well-formedness of the payload is per command and only says what the protocol says about
LENGTHS (C14 is about framing): lists carry as many items as their count announces.
-/
import BRV.Model.Wire

namespace BRV.Spec
open BRV BRV.Wire

/-- 12-byte command field. -/
def cmdField (cmd : Bytes) : Bytes := cmd ++ List.replicate (12 - cmd.length) 0

/-- classic frame: magic, command, uint32 length, checksum (first 4 bytes of SHA-256d), payload. -/
def classicFrame (e : Env) (cmd p : Bytes) : Bytes :=
  e.net ++ cmdField cmd ++ leN 4 p.length ++ (e.hash p).take 4 ++ p

/-- extended frame: `extmsg` header (length 0xffffffff, checksum 0), command, uint64 length, payload. -/
def extFrame (e : Env) (cmd p : Bytes) : Bytes :=
  e.net ++ cmdField (ascii "extmsg") ++ leN 4 0xffffffff ++ [0, 0, 0, 0] ++ cmdField cmd ++ leN 8 p.length ++ p

/-- a command as the protocol writes it: 1..12 bytes, no zero byte, ASCII. -/
def wfCmd (cmd : Bytes) : Prop := 0 < cmd.length ∧ cmd.length ≤ 12 ∧ ∀ x ∈ cmd, 0 < x ∧ x < 128

/-- `count` items of `size` bytes each. -/
def items (size : Nat) : Nat → List Bytes → Prop
  | 0, l => l = []
  | k+1, l => ∃ x r, l = x :: r ∧ x.length = size ∧ items size k r

/-- inventory payload: varint count, then `count` 36-byte vectors. -/
def wfInv (p : Bytes) : Prop :=
  ∃ (k : Nat) (its : List Bytes), k < 2 ^ 64 ∧ items 36 k its ∧ p = varIntEnc k ++ its.flatten

/-- headers payload: varint count, then `count` × (80-byte header, tx count 0). -/
def wfHeaders (p : Bytes) : Prop :=
  ∃ (k : Nat) (hs : List Bytes), k < 2 ^ 64 ∧ items 80 k hs ∧ p = varIntEnc k ++ (hs.map (· ++ [0])).flatten

/-- a transaction input / output as serialized: `pre` fixed bytes, a var-length script of at most
    `M` bytes, `post` fixed bytes (input: outpoint 36, sequence 4; output: value 8, nothing). -/
def scriptItem (pre post M : Nat) (b : Bytes) : Prop :=
  ∃ a sc z, a.length = pre ∧ z.length = post ∧ sc.length ≤ M ∧ b = a ++ varIntEnc sc.length ++ sc ++ z

def scriptItems (pre post M : Nat) : Nat → List Bytes → Prop
  | 0, l => l = []
  | k+1, l => ∃ x r, l = x :: r ∧ scriptItem pre post M x ∧ scriptItems pre post M k r

/-- a well-formed serialized transaction whose counts and script lengths ask the decoder for at
    most `M` bytes per allocation (72 bytes per declared input, 32 per declared output). -/
def wfTx (M : Nat) (t : Bytes) : Prop :=
  ∃ (ver lock : Bytes) (ins outs : List Bytes) (nIn nOut : Nat),
    ver.length = 4 ∧ lock.length = 4 ∧ nIn * 72 ≤ M ∧ nOut * 32 ≤ M ∧
    scriptItems 36 4 M nIn ins ∧ scriptItems 8 0 M nOut outs ∧
    t = ver ++ varIntEnc nIn ++ ins.flatten ++ varIntEnc nOut ++ outs.flatten ++ lock

def wfTxs (M : Nat) : Nat → List Bytes → Prop
  | 0, l => l = []
  | k+1, l => ∃ x r, l = x :: r ∧ wfTx M x ∧ wfTxs M k r

/-- block payload: 80-byte header, varint count, that many transactions, and possibly `extra`
    bytes still inside the declared length (a count smaller than what is present). -/
def wfBlock (M : Nat) (p : Bytes) : Prop :=
  ∃ (h : Bytes) (k : Nat) (txs : List Bytes) (extra : Bytes),
    h.length = 80 ∧ k < 2 ^ 64 ∧ wfTxs M k txs ∧ p = h ++ varIntEnc k ++ txs.flatten ++ extra

end BRV.Spec
