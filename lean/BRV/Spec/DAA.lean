/-
The NETWORK's rules that C02 refers to, as a specification independent of /repo:

* compact target decoding/encoding (`arith_uint256::SetCompact` / `GetCompact`) and `CheckProofOfWork`,
* `GetBlockProof` (per-header work),
* the 144-block difficulty adjustment algorithm activated on Bitcoin Cash in November 2017 and kept
  unchanged by Bitcoin SV: `GetNextCashWorkRequired`, `GetSuitableBlock`, `ComputeTarget` (pow.cpp).

THIS IS A TRANSCRIPTION FROM MEMORY of the reference node's C++ (Bitcoin ABC 0.16 / Bitcoin SV
pow.cpp, arith_uint256.cpp). No copy of that source is available offline, so it cannot be
cross-checked here beyond the two fixture files of real main-net headers
(/repo/headers/test_fixtures/headers_556000.txt, headers_725000.txt: 2822 headers, on all of which
`daaBits` below reproduces the header's bits field — checked on every run by the `pow` monitor,
whose Python reference is a second, independent transcription of the same C++).

```cpp
static const CBlockIndex *GetSuitableBlock(const CBlockIndex *pindex) {
    const CBlockIndex *blocks[3];
    blocks[2] = pindex; blocks[1] = pindex->pprev; blocks[0] = blocks[1]->pprev;
    // Sorting network.
    if (blocks[0]->nTime > blocks[2]->nTime) std::swap(blocks[0], blocks[2]);
    if (blocks[0]->nTime > blocks[1]->nTime) std::swap(blocks[0], blocks[1]);
    if (blocks[1]->nTime > blocks[2]->nTime) std::swap(blocks[1], blocks[2]);
    return blocks[1];
}
static arith_uint256 ComputeTarget(pindexFirst, pindexLast, params) {
    arith_uint256 work = pindexLast->nChainWork - pindexFirst->nChainWork;
    work *= params.nPowTargetSpacing;
    int64_t nActualTimespan = int64_t(pindexLast->nTime) - int64_t(pindexFirst->nTime);
    if (nActualTimespan > 288 * params.nPowTargetSpacing) nActualTimespan = 288 * params.nPowTargetSpacing;
    else if (nActualTimespan < 72 * params.nPowTargetSpacing) nActualTimespan = 72 * params.nPowTargetSpacing;
    work /= nActualTimespan;
    // T = (2^256 / W) - 1, computed as (2^256 - W) / W = (-work) / work
    return (-work) / work;
}
uint32_t GetNextCashWorkRequired(pindexPrev, pblock, params) {
    const CBlockIndex *pindexLast = GetSuitableBlock(pindexPrev);
    uint32_t nHeightFirst = pindexPrev->nHeight - 144;
    const CBlockIndex *pindexFirst = GetSuitableBlock(pindexPrev->GetAncestor(nHeightFirst));
    const arith_uint256 nextTarget = ComputeTarget(pindexFirst, pindexLast, params);
    const arith_uint256 powLimit = UintToArith256(params.powLimit);
    if (nextTarget > powLimit) return powLimit.GetCompact();
    return nextTarget.GetCompact();
}
```
-/
namespace BRV.Spec

/-- main-net `consensus.powLimit` = 00000000ffff…ff. -/
def powLimit : Nat := 2 ^ 224 - 1
def targetSpacing : Nat := 600
def minSpan : Int := 72 * 600
def maxSpan : Int := 288 * 600
/-- height of the first block whose bits the repository checks against this algorithm. -/
def daaHeight : Nat := 556767

/-! ### compact encoding -/

structure Compact where
  value : Nat
  negative : Bool
  overflow : Bool
deriving DecidableEq, Repr

/-- `arith_uint256::SetCompact` (value is taken modulo 2^256 as the 256-bit type does). -/
def setCompact (bits : Nat) : Compact :=
  let nSize := bits / 2 ^ 24 % 256
  let nWord := bits % 2 ^ 23
  let value := if nSize ≤ 3 then nWord / 256 ^ (3 - nSize) else nWord * 256 ^ (nSize - 3) % 2 ^ 256
  { value,
    negative := nWord != 0 && bits / 2 ^ 23 % 2 == 1,
    overflow := nWord != 0 && (decide (nSize > 34) || (decide (nWord > 0xff) && decide (nSize > 33))
                               || (decide (nWord > 0xffff) && decide (nSize > 32))) }

/-- the target a bits field encodes for the purpose of `CheckProofOfWork`; `none` = no hash can
    satisfy it (negative, zero, overflowing or above the proof-of-work limit). -/
def validTarget (bits : Nat) : Option Nat :=
  let c := setCompact bits
  if c.negative || c.overflow || c.value == 0 || decide (c.value > powLimit) then none else some c.value

/-- `CheckProofOfWork(hash, nBits)`. -/
def checkProofOfWork (hash bits : Nat) : Bool :=
  match validTarget bits with
  | none => false
  | some t => decide (hash ≤ t)

/-- number of bytes of `t` (`(bits() + 7) / 8`). -/
def sizeOf (t : Nat) : Nat := if t = 0 then 0 else t.log2 / 8 + 1

/-- `arith_uint256::GetCompact(false)`. -/
def getCompact (t : Nat) : Nat :=
  let nSize := sizeOf t
  let nCompact := if nSize ≤ 3 then t * 256 ^ (3 - nSize) else t / 256 ^ (nSize - 3)
  if nCompact / 2 ^ 23 % 2 = 1 then (nSize + 1) * 2 ^ 24 + nCompact / 256 else nSize * 2 ^ 24 + nCompact

/-- `GetBlockProof`: 0 for an undecodable target, else `(~target / (target+1)) + 1`. -/
def blockProof (bits : Nat) : Nat :=
  let c := setCompact bits
  if c.negative || c.overflow || c.value == 0 then 0 else (2 ^ 256 - 1 - c.value) / (c.value + 1) + 1

/-! ### the difficulty adjustment -/

/-- a block index entry as far as the algorithm reads it. -/
structure Block where
  time : Nat          -- nTime
  chainWork : Nat     -- nChainWork
deriving DecidableEq, Repr, Inhabited

/-- `GetSuitableBlock`: `b0 = pindex->pprev->pprev`, `b1 = pindex->pprev`, `b2 = pindex`. -/
def suitableBlock (b0 b1 b2 : Block) : Block :=
  -- if (blocks[0]->nTime > blocks[2]->nTime) swap(blocks[0], blocks[2])
  let (x0, x2) := if b0.time > b2.time then (b2, b0) else (b0, b2)
  let x1 := b1
  -- if (blocks[0]->nTime > blocks[1]->nTime) swap(blocks[0], blocks[1])
  let (_y0, y1) := if x0.time > x1.time then (x1, x0) else (x0, x1)
  -- if (blocks[1]->nTime > blocks[2]->nTime) swap(blocks[1], blocks[2])
  let (z1, _z2) := if y1.time > x2.time then (x2, y1) else (y1, x2)
  z1

/-- `nActualTimespan` after clamping: signed difference, limited to [72, 288] target spacings. -/
def clampedSpan (lastTime firstTime : Nat) : Int :=
  let ts : Int := (lastTime : Int) - (firstTime : Int)
  if ts > maxSpan then maxSpan else if ts < minSpan then minSpan else ts

/-- `ComputeTarget`; `none` when `work` is 0 (the reference node would divide by zero; cannot
    happen on a chain, where every block adds work). 256-bit wrap-around of `work *= 600` is not
    modelled (chain work is far below 2^246). -/
def computeTarget (first last : Block) : Option Nat :=
  let work := (last.chainWork - first.chainWork) * targetSpacing / (clampedSpan last.time first.time).toNat
  if work = 0 then none else some ((2 ^ 256 - work) / work)

/-- the bits `GetNextCashWorkRequired` demands, given the two suitable blocks. -/
def daaBitsOf (first last : Block) : Option Nat :=
  (computeTarget first last).map fun t => if t > powLimit then getCompact powLimit else getCompact t

/-- the whole algorithm on a chain given as a height-indexed lookup: bits required of the block at
    height `h` (so `pindexPrev` is at `h − 1`). -/
def daaBits (chain : Nat → Option Block) (h : Nat) : Option Nat :=
  if h < 148 then none else
  match chain (h - 3), chain (h - 2), chain (h - 1), chain (h - 147), chain (h - 146), chain (h - 145) with
  | some l0, some l1, some l2, some f0, some f1, some f2 =>
    daaBitsOf (suitableBlock f0 f1 f2) (suitableBlock l0 l1 l2)
  | _, _, _, _, _, _ => none

end BRV.Spec
