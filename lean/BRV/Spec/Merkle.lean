/-
Textbook merkle tree over an IDEAL hash (specification side of C04).

`H` is the free term algebra of a two-argument hash: `node` is injective and a `node` never equals
a `leaf` — exactly what double-SHA-256 is assumed to be (collision- and second-preimage-free, and no
transaction id equals an inner node). Transaction ids are `leaf n`.

`merkleRoot` is the level-by-level construction of the Bitcoin block header: pair up neighbours,
duplicate the last element of an odd level, a single element is its own root. The empty list has no
root (`none`; the Go code returns the all-zero hash, which is not the hash of anything).
`merklePath` is the list of siblings from the leaf level upward; `climb` recomputes the root from
it using the bits of the leaf index (even = left).
-/
namespace BRV.Merkle

inductive H
  | leaf (n : Nat)
  | node (l r : H)
deriving DecidableEq, Repr, Inhabited

/-- one level up: pair neighbours, duplicate the last element of an odd level. -/
def pairUp : List H → List H
  | [] => []
  | [a] => [H.node a a]
  | a :: b :: rest => H.node a b :: pairUp rest

theorem pairUp_length (l : List H) : (pairUp l).length = (l.length + 1) / 2 := by
  induction l using pairUp.induct with
  | case1 => rfl
  | case2 a => simp [pairUp]
  | case3 a b rest ih => simp only [pairUp, List.length_cons, ih]; omega

/-- the textbook root. -/
def merkleRoot (l : List H) : Option H :=
  match l with
  | [] => none
  | [a] => some a
  | a :: b :: rest => merkleRoot (pairUp (a :: b :: rest))
termination_by l.length
decreasing_by simp only [pairUp, List.length_cons, pairUp_length]; omega

/-- the sibling of position `i` in a level (the element itself when it is the duplicated last). -/
def sibling : List H → Nat → Option H
  | [], _ => none
  | [a], 0 => some a
  | [_], _ + 1 => none
  | _ :: b :: _, 0 => some b
  | a :: _ :: _, 1 => some a
  | _ :: _ :: rest, i + 2 => sibling rest i

/-- the textbook path of leaf `i`: siblings from the bottom level upward. -/
def merklePath (l : List H) (i : Nat) : List H :=
  match l with
  | [] => []
  | [_] => []
  | a :: b :: rest =>
    match sibling (a :: b :: rest) i with
    | some s => s :: merklePath (pairUp (a :: b :: rest)) (i / 2)
    | none => []
termination_by l.length
decreasing_by simp only [pairUp, List.length_cons, pairUp_length]; omega

/-- recompute the root from a leaf, its index and its path. -/
def climb : Nat → H → List H → H
  | _, h, [] => h
  | i, h, s :: rest => climb (i / 2) (if i % 2 = 0 then H.node h s else H.node s h) rest

end BRV.Merkle
